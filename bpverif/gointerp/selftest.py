"""Self test of the Go subset interpreter.

Run with ``cd /verif && /venv/bin/python -m bpverif.gointerp.selftest``.
``run_selftest()`` returns the number of assertions checked and raises
AssertionError on the first failure.
"""

from __future__ import annotations

import sys
import time
from typing import List

from . import (GoCompileError, GoPanic, GoSyntaxError, GoUnsupported, Program, parse_file, static_check, tokenize)
from . import nodes as A
from .selftest_cases import CASES, COMPILE, PANIC, SYNTAX, UNSUPPORTED

_count = 0


def check(cond, msg=""):
    global _count
    _count += 1
    if not cond:
        raise AssertionError(msg)


def eq(got, want, msg=""):
    check(got == want and type(got) is type(want), f"{msg}: got {got!r}, want {want!r}")


# ---------------------------------------------------------------------------
# (a) semantics table
# ---------------------------------------------------------------------------
def _make_source(pkg: str, funcs: List[tuple], decls: str) -> str:
    imports = [l for l in decls.split("\n") if l.startswith("import ")]
    rest = [l for l in decls.split("\n") if not l.startswith("import ")]
    out = [f"package {pkg}", ""] + imports + [""] + rest + [""]
    for fname, ret, body in funcs:
        out.append(f"func {fname}() {ret} {{\n{body}\n}}")
    return "\n".join(out) + "\n"


def _run_case(prog: Program, pkg: str, fname: str, name: str, expect):
    try:
        got = prog.call_func(pkg, fname)
    except GoPanic as p:
        check(isinstance(expect, PANIC) and expect.sub in str(p), f"case {name!r}: unexpected panic {p}")
        return
    except GoUnsupported as u:
        check(expect is UNSUPPORTED, f"case {name!r}: unexpected GoUnsupported {u}")
        return
    check(not isinstance(expect, (PANIC, COMPILE)) and expect is not UNSUPPORTED and expect is not SYNTAX,
          f"case {name!r}: expected {expect!r} but call returned {got!r}")
    eq(got, expect, f"case {name!r}")


def run_semantics() -> None:
    # negative controls: the harness must notice wrong expectations
    ctl = Program({"st": [_make_source("st", [("tcase", "int", "return 1"), ("pcase", "int", "a := []int{}; i := 0; return a[i]")], "")]})
    for fname, wrong in (("tcase", 2), ("tcase", True), ("tcase", PANIC("x")), ("pcase", 0), ("pcase", PANIC("nil pointer")), ("pcase", UNSUPPORTED)):
        try:
            _run_case(ctl, "st", fname, "control", wrong)
        except AssertionError:
            check(True)
        else:
            raise AssertionError(f"harness accepted wrong expectation {wrong!r} for {fname}")
    shared = []  # cases without decls and with a normal / panic expectation
    own = []
    for i, (name, ret, body, expect, decls) in enumerate(CASES):
        if decls or isinstance(expect, COMPILE) or expect is UNSUPPORTED or expect is SYNTAX:
            own.append((i, name, ret, body, expect, decls))
        else:
            shared.append((i, name, ret, body, expect))
    # all simple cases share one package (one compilation)
    src = _make_source("st", [(f"f{i}", ret, body) for i, _n, ret, body, _e in shared], "")
    try:
        prog = Program({"st": [src]})
    except Exception as e:  # find the culprit
        for i, name, ret, body, expect in shared:
            try:
                Program({"st": [_make_source("st", [(f"f{i}", ret, body)], "")]})
            except Exception as e2:
                raise AssertionError(f"case {name!r}: does not build: {type(e2).__name__}: {e2}") from e2
        raise
    for i, name, ret, body, expect in shared:
        _run_case(prog, "st", f"f{i}", name, expect)
    for i, name, ret, body, expect, decls in own:
        src = _make_source("st", [("tcase", ret, body)], decls)
        try:
            prog = Program({"st": [src]})
        except GoCompileError as e:
            check(isinstance(expect, COMPILE) and expect.sub in str(e), f"case {name!r}: unexpected compile error {e}")
            continue
        except GoSyntaxError as e:
            check(expect is SYNTAX, f"case {name!r}: unexpected syntax error {e}")
            continue
        except GoUnsupported as e:
            check(expect is UNSUPPORTED, f"case {name!r}: unexpected GoUnsupported {e}")
            continue
        check(not isinstance(expect, COMPILE) and expect is not SYNTAX,
              f"case {name!r}: expected {expect!r} but the program was accepted")
        _run_case(prog, "st", "tcase", name, expect)


# ---------------------------------------------------------------------------
# (b) lexer
# ---------------------------------------------------------------------------
def _toks(src):
    """(kind, value) pairs without EOF and without the semicolon inserted at EOF."""
    toks = tokenize(src)[:-1]
    if toks and toks[-1].kind == "OP" and toks[-1].value == ";" and toks[-1].text != ";":
        toks = toks[:-1]
    return [(t.kind, t.value) for t in toks]


def _semi(src) -> str:
    """Token texts with inserted semicolons rendered as ';'."""
    out = []
    for t in tokenize(src):
        if t.kind == "EOF":
            break
        out.append(";" if (t.kind == "OP" and t.value == ";") else t.text)
    return " ".join(out)


def _lex_err(src) -> bool:
    try:
        tokenize(src)
    except GoSyntaxError:
        return True
    return False


def run_lexer() -> None:
    # integer literals
    for text, val in [("0", 0), ("42", 42), ("1_000_000", 1000000), ("0x1F", 31), ("0X_ff", 255), ("0xBad_Face", 0xBADFACE),
                      ("0o17", 15), ("0O17", 15), ("017", 15), ("0_17", 15), ("0b101", 5), ("0B1_0", 2),
                      ("170141183460469231731687303715884105727", 170141183460469231731687303715884105727)]:
        eq(_toks(text), [("INT", val)], f"int literal {text}")
    for bad in ["08", "0b12", "0o8", "0x", "0b", "1__0", "1_", "0x_", "0_x1", "09", "12abc", "0xg"]:
        check(_lex_err(bad), f"invalid int literal {bad!r} accepted")
    # floats / imaginary are recognised (not executed)
    for text in ["1.5", ".5", "1.", "1e3", "1E-3", "0x1p-2", "0x1.8p1", "09.5", "1_0.2_5"]:
        toks = tokenize(text)
        check(toks[0].kind == "FLOAT" and toks[1].kind == "OP", f"float literal {text}: {toks}")
    eq(tokenize("0x1p-2")[0].value, 0.25, "hex float value")
    check(tokenize("3i")[0].kind == "IMAG" and tokenize("1.5i")[0].kind == "IMAG", "imaginary literal")
    check(_lex_err("0x1.8") and _lex_err("1e") and _lex_err("0b1.0") and _lex_err("1p3"), "bad float literal accepted")
    # rune literals
    for text, val in [("'a'", 97), ("'ä'", 0xE4), ("'本'", 0x672C), (r"'\n'", 10), (r"'\t'", 9), (r"'\\'", 92), (r"'\''", 39),
                      (r"'\a'", 7), (r"'\b'", 8), (r"'\f'", 12), (r"'\r'", 13), (r"'\v'", 11), (r"'\000'", 0), (r"'\377'", 255),
                      (r"'\x07'", 7), (r"'\xff'", 255), (r"'ዤ'", 0x12E4), (r"'\U00101234'", 0x101234)]:
        eq(_toks(text), [("RUNE", val)], f"rune literal {text}")
    for bad in ["''", "'aa'", r"'\k'", r"'\xa'", r"'\0'", r"'\400'", r"'\uDFFF'", r"'\U00110000'", r"'\"'", "'a", "'\n'"]:
        check(_lex_err(bad), f"invalid rune literal {bad!r} accepted")
    # interpreted strings with every escape
    eq(_toks(r'"a\a\b\f\n\r\t\v\\\"z"'), [("STRING", 'a\a\b\f\n\r\t\v\\"z')], "simple escapes")
    eq(_toks(r'"\101\x41A\U00000041"'), [("STRING", "AAAA")], "numeric escapes")
    eq(_toks(r'"日本\U00008a9e"'), [("STRING", "日本語")], "unicode escapes")
    eq(_toks(r'"\xe6\x97\xa5"'), [("STRING", "日")], "\\x bytes forming valid UTF-8")
    s = tokenize(r'"\xff\377a"')[0].value
    eq(s.encode("utf-8", "surrogateescape"), b"\xff\xffa", "invalid UTF-8 bytes kept via surrogateescape")
    eq(_toks('""'), [("STRING", "")], "empty string")
    for bad in [r'"\'"', r'"\z"', r'"\x4"', r'"\u123"', r'"\uD800"', r'"\400"', '"abc', '"a\nb"', r'"\U0011FFFF"']:
        check(_lex_err(bad), f"invalid string literal {bad!r} accepted")
    # raw strings
    eq(_toks("`a\\n\"b`"), [("STRING", 'a\\n"b')], "raw string keeps backslashes")
    eq(_toks("`l1\r\nl2`"), [("STRING", "l1\nl2")], "raw string drops \\r")
    check(_lex_err("`abc"), "unterminated raw string accepted")
    t = tokenize("`a\nb` x")
    eq((t[1].line, t[1].col), (2, 4), "position after multi-line raw string")
    # identifiers / keywords / operators
    eq(_toks("foo _x9 αβ break"), [("IDENT", "foo"), ("IDENT", "_x9"), ("IDENT", "αβ"), ("KEYWORD", "break")], "identifiers")
    ops = "+ & += &= && == != ( ) - | -= |= || < <= [ ] * ^ *= ^= <- > >= { } / << /= <<= ++ = := , ; % >> %= >>= -- ! ... . : &^ &^= ~"
    eq([t.text for t in tokenize(ops)][:-1], ops.split(), "operators")
    eq([t.text for t in tokenize("a<<=b>>=c&^=d&^e...f")][:-2], ["a", "<<=", "b", ">>=", "c", "&^=", "d", "&^", "e", "...", "f"],
       "longest match")
    check(_lex_err("a # b") and _lex_err("a $ b") and _lex_err("a ? b") and _lex_err("\x00"), "illegal character accepted")
    # comments
    eq(_semi("a // c\nb"), "a ; b ;", "line comment acts like newline")
    eq(_semi("a /* x */ b"), "a b ;", "block comment on one line is white space")
    eq(_semi("a /* x\n y */ b"), "a ; b ;", "multi-line block comment acts like newline")
    check(_lex_err("a /* x"), "unterminated comment accepted")
    t = tokenize("/* a\n b */ x")
    eq((t[0].text, t[0].line, t[0].col), ("x", 2, 7), "position after block comment")
    # automatic semicolon insertion
    eq(_semi("x\n"), "x ;", "after identifier")
    eq(_semi("x"), "x ;", "at EOF")
    eq(_semi("1\n'a'\n\"s\"\n`r`\n1.5\n2i\n"), "1 ; 'a' ; \"s\" ; `r` ; 1.5 ; 2i ;", "after literals")
    eq(_semi("return\nbreak\ncontinue\nfallthrough\n"), "return ; break ; continue ; fallthrough ;", "after keywords")
    eq(_semi("if\nfor\nfunc\n"), "if for func", "not after other keywords")
    eq(_semi("x++\ny--\n"), "x ++ ; y -- ;", "after ++ --")
    eq(_semi("f()\na[1]\nT{}\n"), "f ( ) ; a [ 1 ] ; T { } ;", "after ) ] }")
    eq(_semi("a +\nb\n"), "a + b ;", "not after binary operator")
    eq(_semi("f(\na,\nb,\n)\n"), "f ( a , b , ) ;", "not after ( and ,")
    eq(_semi("{\n}\n"), "{ } ;", "not after {")
    eq(_semi("x\n\n\ny"), "x ; y ;", "blank lines")
    eq(_semi("return // c\n1"), "return ; 1 ;", "return before comment+newline")
    eq(_semi("a;\nb"), "a ; b ;", "explicit semicolon no duplicate")
    t = tokenize("x\ny")
    eq((t[1].kind, t[1].text, t[1].value, t[1].line), ("OP", "\n", ";", 1), "inserted semicolon token")
    eq((t[2].line, t[2].col), (2, 1), "line/col")
    eq(_toks("﻿x"), [("IDENT", "x")], "BOM skipped")


# ---------------------------------------------------------------------------
# parser
# ---------------------------------------------------------------------------
def run_parser() -> None:
    f = parse_file('package p\nimport (\n "strconv"\n bp "x/y"\n)\nimport _ "z"\nconst (\n A = iota\n B\n)\n'
                   'var v, w int = 1, 2\ntype T struct{ X int `json:"x"` }\ntype F = int\n'
                   'func (t *T) M(a, b int, _ string) (r int, err error) { return }\nfunc f() {}\n')
    eq(f.package, "p", "package name")
    eq(f.imports, [(None, "strconv"), ("bp", "x/y"), ("_", "z")], "imports")
    kinds = [type(d).__name__ for d in f.decls]
    eq(kinds, ["ImportSpec"] * 3 + ["ConstSpec", "ConstSpec", "VarSpec", "TypeSpec", "TypeSpec", "FuncDecl", "FuncDecl"], "decl kinds")
    c2 = f.decls[4]
    check(c2.implicit and c2.iota == 1 and c2.values is f.decls[3].values, "implicit repetition")
    eq([d.line for d in f.decls], [3, 4, 6, 8, 9, 11, 12, 13, 14, 15], "decl lines")
    t = f.decls[6]
    eq((t.name.name, t.is_alias, t.type.fields[0].tag), ("T", False, 'json:"x"'), "struct tag")
    check(f.decls[7].is_alias, "alias decl")
    m = f.decls[8]
    eq((m.name.name, m.recv.names[0].name, [n.name for n in m.type.params[0].names], len(m.type.results)),
       ("M", "t", ["a", "b"], 2), "method decl")
    # composite literal vs block ambiguity
    f = parse_file("package p\nfunc f() { if x == (T{}) {}; for _, v := range []int{1} { _ = v }; switch y := (T{1}); y {} }")
    check(isinstance(f.decls[0].body.stmts[0], A.IfStmt), "if with parenthesised literal")
    e = parse_file("package p\nvar x = a + b*c<<d&e == f || g && !h").decls[0].values[0]
    eq((e.op, e.x.op, e.x.x.op, e.x.x.y.op, e.x.x.y.x.op, e.x.x.y.x.x.op), ("||", "==", "+", "&", "<<", "*"), "precedence")
    for bad in ["package", "package p; func", "package p\nfunc f() { x := }", "package p\nvar x = (1", "package p\nfunc f() { if x \n{ } }",
                "package p\nfunc f() { for i := 0; i < 1 \n {} }", "package p\nvar x = [3]int{1, 2\n}", "package p\nx := 1",
                "package p\nfunc f() { a, b }", "package p\nfunc f() { 1 = = 2 }", "package p\nimport x", "package p\nfunc (a, b T) m() {}",
                "package p\nvar x int\nimport \"a\""]:
        try:
            parse_file(bad)
        except GoSyntaxError:
            check(True)
        else:
            check(False, f"parser accepted invalid source {bad!r}")
    for uns in ["package p\nfunc f() { go g() }", "package p\nvar c chan int", "package p\nfunc f() { select {} }",
                "package p\nfunc f[T any]() {}", "package p\ntype L[T any] struct{}", "package p\nfunc f() { c <- 1 }"]:
        try:
            parse_file(uns)
        except GoUnsupported:
            check(True)
        else:
            check(False, f"parser did not reject unsupported source {uns!r}")


# ---------------------------------------------------------------------------
# (c) static_check
# ---------------------------------------------------------------------------
_GOOD = '''package t

import (
	"strconv"
	"encoding/json"

	bp "github.com/hit9/bitproto/lib/go"
)

import base "github.com/x/base"

var formatInt = strconv.FormatInt
var jsonMarshal = json.Marshal
var _ = bp.Useless

type Color uint8

const (
	RED Color = 0
	GREEN = 1
)

type M struct {
	C Color `json:"c"`
	B base.Color
	A [3]uint8
}

func (m *M) Size() uint32 { return 1 }

func (m *M) BpProcessor() bp.Processor {
	fieldDescriptors := []*bp.MessageFieldProcessor{
		bp.NewMessageFieldProcessor(1, (base.Color(0)).BpProcessor()),
		bp.NewMessageFieldProcessor(2, (&base.Msg{}).BpProcessor()),
	}
	return bp.NewMessageProcessor(false, 3, fieldDescriptors)
}

func (m *M) BpSetByte(di *bp.DataIndexer, lshift int, b byte) {
	switch di.F() {
	case 1:
		m.C |= (Color(b) << lshift)
	case 3:
		m.A[di.I(0)] |= (uint8(b) << lshift)
	default:
		return
	}
}

func (v Color) String() string {
	switch v {
	case 0:
		return "RED"
	default:
		return "Color(" + formatInt(int64(v), 10) + ")"
	}
}

func helper(a, b int) (r int) {
	x := T2{X: a, Y: b}
	for i, e := range []int{1} {
		r += i + e
	}
	if y := x.X; y > 0 {
		r++
	} else {
		r--
	}
	var z [2]int
	z[0] = len(z) + cap(z[:])
	const k = iota
	p := new(int)
	*p = k
	return r + *p + min(a, b)
}

type T2 struct{ X, Y int }
'''


def _has(problems, sub):
    return any(sub in p for p in problems)


def run_static() -> None:
    known = {"github.com/hit9/bitproto/lib/go": {"Useless", "Processor", "MessageFieldProcessor", "NewMessageFieldProcessor",
                                                  "NewMessageProcessor", "DataIndexer"},
             "github.com/x/base": {"Color", "Msg"}}
    eq(static_check(_GOOD), [], "clean file")
    eq(static_check(_GOOD, known), [], "clean file with known packages")
    # unknown package member
    p = static_check(_GOOD.replace("bp.NewMessageProcessor(", "bp.NewMsgProcessor("), known)
    check(_has(p, "bp.NewMsgProcessor") and len(p) == 1, f"unknown member: {p}")
    eq(static_check(_GOOD.replace("bp.NewMessageProcessor(", "bp.NewMsgProcessor(")), [], "unknown member without known packages")
    p = static_check(_GOOD.replace("base.Msg{}", "base.Other{}"), known)
    check(_has(p, "base.Other"), f"unknown member of generated package: {p}")
    # qualified identifier with unknown package
    p = static_check(_GOOD.replace("B base.Color", "B other.Color"))
    check(_has(p, "undefined: other"), f"unknown package: {p}")
    # nested type referenced unqualified (bitproto defect shape)
    p = static_check(_GOOD.replace("B base.Color", "B BaseInner"))
    check(_has(p, "undefined: BaseInner") and len(p) == 1, f"undeclared type: {p}")
    # unused import
    p = static_check(_GOOD.replace("var _ = bp.Useless\n", "").replace("bp.", "bq."))
    check(_has(p, "imported as bp and not used"), f"unused import: {p}")
    p = static_check('package p\nimport "strconv"\n')
    check(_has(p, "imported as strconv and not used"), f"unused import 2: {p}")
    eq(static_check('package p\nimport _ "strconv"\n'), [], "blank import exempt")
    # undeclared identifiers
    p = static_check(_GOOD.replace("r += i + e", "r += i + ee"))
    check(_has(p, "undefined: ee") and len(p) == 1, f"undeclared local: {p}")
    p = static_check(_GOOD.replace("Color(b) << lshift", "Colour(b) << lshift"))
    check(_has(p, "undefined: Colour"), f"undeclared conversion type: {p}")
    p = static_check(_GOOD.replace("return r + *p", "return q + *p"))
    check(_has(p, "undefined: q"), f"undeclared in return: {p}")
    p = static_check("package p\nfunc f() int { { x := 1; _ = x }; return x }")
    check(_has(p, "undefined: x"), f"block scoping: {p}")
    p = static_check("package p\nfunc f() { for i := 0; i < 2; i++ {}; i = 1 }")
    check(_has(p, "undefined: i"), f"for scoping: {p}")
    p = static_check("package p\nfunc f(a int) (r int) { switch b := a; b { case 1: c := 2; r = c }; return b }")
    check(_has(p, "undefined: b") and len(p) == 1, f"switch scoping: {p}")
    eq(static_check("package p\ntype T struct{ X int }\nfunc f() T { return T{X: 1} }"), [], "keyed literal key exempt")
    p = static_check("package p\nfunc f() [3]int { return [3]int{k: 1} }")
    check(_has(p, "undefined: k"), f"array literal key is an expression: {p}")
    eq(static_check("package p\ntype T struct{ X int }\nfunc (t T) m() int { return t.X + t.nope }"), [], "selectors not checked")
    eq(static_check("package p\nvar a = b\nvar b = 1\nfunc f() { g() }\nfunc g() {}"), [], "package scope is order independent")
    eq(static_check("package p\nfunc f() (int, error) { var e error; var x any = nil; _ = x; return len(\"a\"), e }"), [], "universe names")
    # duplicate declarations
    p = static_check("package p\nvar a = 1\nfunc a() {}")
    check(_has(p, "a redeclared"), f"duplicate decl: {p}")
    p = static_check("package p\ntype T int\nconst T = 1")
    check(_has(p, "T redeclared"), f"duplicate type/const: {p}")
    p = static_check("package p\ntype T int\nfunc (t T) M() {}\nfunc (t *T) M() {}")
    check(_has(p, "method T.M already declared"), f"duplicate method: {p}")
    eq(static_check("package p\ntype T int\ntype U int\nfunc (t T) M() {}\nfunc (u U) M() {}"), [], "same method on different types")
    p = static_check("package p\ntype T struct{ Size int }\nfunc (t *T) Size() int { return 0 }")
    check(_has(p, "field and method with the same name Size"), f"field/method clash: {p}")
    p = static_check('package p\nimport a "x"\nimport a "y"\nvar _ = a.B')
    check(_has(p, "duplicate import name"), f"duplicate import: {p}")
    # brackets
    p = static_check("package p\nfunc f() { g(1, 2 }")
    check(_has(p, "mismatched brackets") and p[0].startswith("2:"), f"mismatched: {p}")
    p = static_check("package p\nfunc f() { if true {\n}")
    check(_has(p, "never closed"), f"unclosed: {p}")
    p = static_check("package p\nfunc f() { } }")
    check(_has(p, "unexpected '}'"), f"extra close: {p}")
    eq(static_check('package p\nvar s = "}{)(" // }{\nvar r = \'{\'\n/* ( */'), [], "brackets in literals/comments ignored")
    # syntax errors are reported, not raised
    p = static_check("package p\nvar x = \nfunc")
    check(len(p) == 1 and "syntax error" in p[0], f"syntax error reporting: {p}")
    p = static_check('package a\nimport (\n"strconv"\n)\nvar f = strconv.Itoa\nimport b "x/b"\nvar _ = b.X\n')
    check(_has(p, "imports must appear before other declarations"), f"late import: {p}")


# ---------------------------------------------------------------------------
# Program API
# ---------------------------------------------------------------------------
_API_SRC = '''package api

type Color uint8
type Arr [3]uint8
type Inner struct {
	Ok bool `json:"ok"`
	Sv int8
}
type Outer struct {
	Inner Inner `json:"inner"`
	C     Color
	A     Arr
	M     [2][2]int16
	p     *Inner
}

const N uint32 = 27
const U = 5
const S string = "x"
const B = true

type Bz struct {
	Raw [4]byte
	R   rune
	S   []uint8
}

type Proc interface{ Flag() int }
type leaf struct{ nbits int }
type node struct {
	kids []Proc
	next *node
}

func (l *leaf) Flag() int { return 1 }
func (n *node) Flag() int { return 2 }

func (o *Outer) Sum() int        { return int(o.C) + int(o.A[0]) + int(o.M[1][1]) }
func (o *Outer) SetC(c Color)    { o.C = c }
func (o *Outer) Tree() Proc      { return &node{[]Proc{&leaf{3}, &leaf{4}}, nil} }
func (o *Outer) Raw(b []byte) []byte { return append(b, byte(o.C)) }
func (o *Outer) Pair() (int8, bool) { return o.Inner.Sv, o.Inner.Ok }
func (c Color) Next() Color      { return c + 1 }
func spin(n int) int             { s := 0; for i := 0; i < n; i++ { s += i }; return s }
func add8(a, b uint8) uint8      { return a + b }
func boom(a []int, i int) int    { return a[i] }
'''


def run_api() -> None:
    p = Program({"api": [_API_SRC]})
    check({"Color", "Outer", "N", "spin", "leaf"} <= p.exported("api"), "exported names")
    eq(p.const("api", "N"), (27, "uint32"), "typed const")
    eq(p.const("api", "U"), (5, "untyped int"), "untyped int const")
    eq(p.const("api", "S"), ("x", "string"), "string const")
    eq(p.const("api", "B"), (True, "untyped bool"), "untyped bool const")
    ti = p.type_info("api", "Outer")
    eq(ti["kind"], "struct", "type_info kind")
    eq([(f["name"], f["type"], f["tag"]) for f in ti["fields"]],
       [("Inner", "Inner", 'json:"inner"'), ("C", "Color", None), ("A", "Arr", None), ("M", "[2][2]int16", None), ("p", "*Inner", None)],
       "type_info fields")
    eq(p.type_info("api", "Color")["underlying"], "uint8", "named underlying")
    eq(p.type_info("api", "Color")["kind"], "named", "named kind")
    eq([f["type"] for f in p.type_info("api", "Bz")["fields"]], ["[4]byte", "rune", "[]uint8"], "byte/rune spelling kept")
    ai = p.type_info("api", "Arr")
    eq((ai["kind"], ai["len"], ai["elem"]), ("array", 3, "uint8"), "array type_info")
    r = p.new("api", "Outer")
    eq(p.get_py(r), {"Inner": {"Ok": False, "Sv": 0}, "C": 0, "A": [0, 0, 0], "M": [[0, 0], [0, 0]], "p": None}, "zero value")
    p.set_py(r, {"Inner": {"Sv": -128, "Ok": True}, "C": 255, "A": [1, 2, 3], "M": [[1, 2], [3, -4]]})
    eq(p.get_py(r)["Inner"], {"Ok": True, "Sv": -128}, "set_py nested")
    eq(p.call_method(r, "Sum"), 255 + 1 - 4, "call_method int result")
    eq(p.call_method(r, "Pair"), (-128, True), "multi result")
    eq(p.call_method(r, "SetC", 7), None, "no result")
    eq(p.get_py(r)["C"], 7, "method mutated receiver")
    eq(p.call_method(r, "Raw", b"\x01\x02"), b"\x01\x02\x07", "[]byte in/out")
    for bad, exc in [({"C": 256}, ValueError), ({"Inner": {"Sv": 128}}, ValueError), ({"C": -1}, ValueError),
                     ({"Nope": 1}, ValueError), ({"A": [1, 2, 3, 4]}, ValueError), ({"C": True}, TypeError),
                     ({"Inner": {"Ok": 1}}, TypeError), ({"A": 5}, TypeError)]:
        try:
            p.set_py(r, bad)
        except exc:
            check(True)
        else:
            check(False, f"set_py accepted {bad!r}")
    eq(p.call_func("api", "add8", 200, 100), 44, "call_func unexported")
    try:
        p.call_func("api", "add8", 256, 0)
    except ValueError:
        check(True)
    else:
        check(False, "call_func argument not range checked")
    try:
        p.call_func("api", "boom", [1, 2], 2)
    except GoPanic as e:
        check("index out of range [2] with length 2" in str(e), f"panic message {e}")
    else:
        check(False, "no panic")
    c = p.new("api", "Color")
    p.set_py(c, 255)
    eq(p.call_method(c, "Next"), 0, "method on pointer to named int (value receiver)")
    eq(p.get_py(c), 255, "scalar ref")
    tree = p.call_method(r, "Tree")
    d = p.describe(tree)
    eq(d, {"$type": "*node", "kids": [{"$type": "*leaf", "nbits": 3}, {"$type": "*leaf", "nbits": 4}], "next": None}, "describe")
    eq(p.call_method(tree, "Flag"), 2, "call_method on interface value")
    # steps and budget
    s0 = p.steps
    eq(p.call_func("api", "spin", 10), 45, "spin")
    check(p.steps - s0 >= 10, "steps counted")
    q = Program({"api": [_API_SRC]}, max_steps=1000)
    try:
        q.call_func("api", "spin", 100000)
    except GoUnsupported as e:
        check("step budget" in str(e), "budget message")
    else:
        check(False, "step budget not enforced")
    # cache: same source -> same compiled unit, separate state
    from .interp import _UNIT_CACHE
    a = Program({"api": [_API_SRC]})
    b = Program({"api": [_API_SRC]})
    check(a.units["api"] is b.units["api"], "compiled unit shared through the cache")
    check(a.ns["api"] is not b.ns["api"] and a.ns["api"]["GV"] is not b.ns["api"]["GV"], "per-Program state")
    nc = Program({"api": [_API_SRC]}, cache=False)
    check(nc.units["api"] is not a.units["api"], "cache=False builds a fresh unit")
    # cross package import with alias
    base = 'package base\ntype Color uint8\nfunc (c Color) Twice() int { return int(c) * 2 }\ntype Msg struct{ V int }\nfunc (m *Msg) Get() int { return m.V }\nvar Count = 1\nfunc Bump() { Count++ }\n'
    main = ('package m\nimport bb "github.com/x/base"\ntype W struct{ C bb.Color; M bb.Msg }\n'
            'func F() int { bb.Bump(); w := W{bb.Color(4), bb.Msg{5}}; return w.C.Twice() + (&w.M).Get() + (&bb.Msg{1}).Get() + bb.Count }\n')
    pm = Program({"github.com/x/base": [base], "m": [main]})
    eq(pm.call_func("m", "F"), 8 + 5 + 1 + 2, "cross package calls")
    eq(pm.type_info("m", "W")["fields"][0]["type"], "base.Color", "qualified type string")
    eq(pm.type_info("m", "W")["fields"][0]["desc"]["pkg"], "github.com/x/base", "desc pkg")
    try:
        Program({"github.com/x/base": [base], "m": [main.replace("bb.Bump()", "bb.bump()")]})
    except GoCompileError:
        check(True)
    else:
        check(False, "unexported cross package access accepted")


def run_selftest() -> int:
    global _count
    _count = 0
    run_lexer()
    run_parser()
    run_static()
    run_semantics()
    run_api()
    return _count


def main() -> int:
    t0 = time.time()
    n = run_selftest()
    dt = time.time() - t0
    print(f"gointerp selftest: {n} assertions OK ({len(CASES)} semantic snippets) in {dt:.2f}s")
    return 0


if __name__ == "__main__":
    sys.exit(main())
