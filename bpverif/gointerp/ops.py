"""Operand record and small code generation helpers shared by the expression
and statement compilers."""

from __future__ import annotations

import re
from typing import Callable, Optional

from . import gotypes as T
from .errors import GoCompileError, GoUnsupported

_SIMPLE_RE = re.compile(r"^(?:[A-Za-z_][A-Za-z_0-9]*|-?\d+|\(-\d+\))$")


def is_simple(code: str) -> bool:
    """A Python name or int literal: free to evaluate more than once."""
    return bool(_SIMPLE_RE.match(code))


class NeedBox(Exception):
    """Raised when the address of an unboxed scalar local is needed; the
    function is recompiled with that variable boxed."""

    def __init__(self, name: str):
        self.name = name


class Op:
    """Result of compiling an expression.

    mode:
      const    compile-time constant (``val``; ``type`` may be untyped)
      value    run-time value (``code``), or an untyped non-constant integer
               expression whose code depends on the final type (``lazy``)
      var      addressable run-time value (``code`` + ``lv``)
      nil      the predeclared nil
      type     a type (``type``)
      builtin  a builtin function (``val`` = name)
      pkg      an imported package (``val`` = PkgUnit)
      func     a package-level function or stub (``code`` = python name)
      tuple    multi-value call result (``type`` is Tuple_)
      novalue  call of a function without results
    """

    __slots__ = ("mode", "type", "val", "code", "lv", "fresh", "eff", "lazy", "extra")

    def __init__(self, mode, type=None, val=None, code=None, lv=None, fresh=False, eff=False, lazy=None, extra=None):
        self.mode = mode
        self.type = type
        self.val = val
        self.code = code
        self.lv = lv
        self.fresh = fresh
        self.eff = eff
        self.lazy = lazy
        self.extra = extra

    def __repr__(self):  # pragma: no cover
        return f"Op({self.mode}, {T.type_str(self.type) if self.type else None}, val={self.val!r}, code={self.code!r})"


def const_literal(val) -> str:
    """Python source of a constant value (always an atom)."""
    if isinstance(val, bool):
        return "True" if val else "False"
    if isinstance(val, int):
        return str(val) if val >= 0 else f"({val})"
    if isinstance(val, str):
        return repr(val)
    raise TypeError(val)


def wrap_code(b: T.Basic, code: str) -> str:
    """Normalise the Python int expression ``code`` to the range of b."""
    if b.signed:
        return f"((({code}) + {b.half} & {b.mask}) - {b.half})"
    return f"(({code}) & {b.mask})"


def wrap_val(b: T.Basic, v: int) -> int:
    if b.signed:
        return ((v + b.half) & b.mask) - b.half
    return v & b.mask


def mangle(name: str) -> str:
    """Go identifier -> ASCII-only Python identifier fragment."""
    if name.isascii():
        return name
    return "".join(c if c.isascii() else f"_u{ord(c):04X}_" for c in name)


def zero_code(t: T.Type, rt_ref: Callable[[T.Type], str], depth: int = 0) -> str:
    """Python expression creating a fresh zero value of t."""
    u = t.underlying()
    if isinstance(u, T.Basic):
        if u.kind == "int":
            return "0"
        if u.kind == "bool":
            return "False"
        if u.kind == "string":
            return "''"
        raise GoUnsupported(f"zero value of {u.name}")
    if isinstance(u, T.Slice):
        return "NILS"
    if isinstance(u, (T.Pointer, T.Interface, T.Signature)):
        return "None"
    if isinstance(u, T.Struct):
        if len(u.fields) > 12 or depth > 2:
            return f"{rt_ref(t)}.zero()"
        return "[" + ", ".join(zero_code(f.type, rt_ref, depth + 1) for f in u.fields) + "]"
    if isinstance(u, T.Array):
        if T.is_agg(u.elem):
            return f"{rt_ref(t)}.zero()"
        return f"[{zero_code(u.elem, rt_ref, depth + 1)}] * {u.len}"
    raise GoUnsupported(f"zero value of {T.type_str(t)}")


def err(node, msg: str):
    line = getattr(node, "line", 0) if node is not None else 0
    col = getattr(node, "col", 0) if node is not None else 0
    raise GoCompileError(msg, line, col)


def unsupported(node, msg: str):
    line = getattr(node, "line", 0) if node is not None else 0
    col = getattr(node, "col", 0) if node is not None else 0
    raise GoUnsupported(f"{line}:{col}: {msg}" if line else msg)
