"""Go lexer (https://go.dev/ref/spec#Lexical_elements).

``tokenize(src)`` returns a list of :class:`Token`, the last one being ``EOF``.

Token kinds
-----------
``IDENT``    identifier (``value`` = the name)
``KEYWORD``  one of the 25 Go keywords (``value`` = the keyword)
``INT``      integer literal, ``value`` = Python int
``FLOAT``    floating point literal, ``value`` = Python float (decimal) or the
             exact value for hex floats; the interpreter does not execute
             floats, the lexer only has to recognise them
``IMAG``     imaginary literal (``value`` = None)
``RUNE``     rune literal, ``value`` = code point (int)
``STRING``   string literal, ``value`` = Python ``str``.  Go strings are byte
             sequences; the decoded byte sequence is turned into ``str`` with
             ``bytes.decode("utf-8", "surrogateescape")`` so that bytes that
             are not valid UTF-8 (``"\\xff"``) are kept loss-less as lone
             surrogates U+DC80..U+DCFF.  ``go_string_bytes(value)`` gives the
             byte sequence back.
``OP``       operator / punctuation (``value`` = the operator text; for an
             automatically inserted semicolon ``text`` is ``"\\n"`` (or ``""``
             at end of file) while ``value`` is ``";"``)
``EOF``      end of input
"""

from __future__ import annotations

import re
import unicodedata
from typing import List, NamedTuple

from .errors import GoSyntaxError

KEYWORDS = frozenset(
    """break default func interface select case defer go map struct chan else
    goto package switch const fallthrough if range type continue for import
    return var""".split()
)

# Operators, longest first.
_OPERATORS = [
    "<<=", ">>=", "&^=", "...", "&&", "||", "<-", "++", "--", "==", "!=", "<=",
    ">=", ":=", "+=", "-=", "*=", "/=", "%=", "&=", "|=", "^=", "<<", ">>", "&^",
    "+", "-", "*", "/", "%", "&", "|", "^", "<", ">", "=", "!", "(", ")", "[",
    "]", "{", "}", ",", ";", ".", ":", "~",
]
_OP_RE = re.compile("|".join(re.escape(o) for o in _OPERATORS))
_IDENT_RE = re.compile(r"[^\W\d]\w*", re.UNICODE)
_WS_RE = re.compile(r"[ \t\r]+")

# Tokens after which a newline is turned into a semicolon.
_SEMI_KEYWORDS = frozenset(["break", "continue", "fallthrough", "return"])
_SEMI_OPS = frozenset(["++", "--", ")", "]", "}"])


class Token(NamedTuple):
    kind: str
    text: str
    value: object
    line: int
    col: int

    def __repr__(self) -> str:  # pragma: no cover - debugging aid
        return f"Token({self.kind}, {self.text!r}, {self.line}:{self.col})"


def go_string_bytes(s: str) -> bytes:
    """The Go byte sequence of a decoded string value."""
    return s.encode("utf-8", "surrogateescape")


def go_string_from_bytes(b: bytes) -> str:
    return bytes(b).decode("utf-8", "surrogateescape")


def _is_letter(ch: str) -> bool:
    if ch == "_":
        return True
    if ch < "\x80":
        return ch.isalpha()
    return unicodedata.category(ch) in ("Lu", "Ll", "Lt", "Lm", "Lo")


def _is_unicode_digit(ch: str) -> bool:
    if ch < "\x80":
        return "0" <= ch <= "9"
    return unicodedata.category(ch) == "Nd"


_HEX = "0123456789abcdefABCDEF"


class _Lexer:
    def __init__(self, src: str):
        if src.startswith("﻿"):
            src = src[1:]
        self.src = src
        self.n = len(src)
        self.pos = 0
        self.line = 1
        self.line_start = 0  # offset of the first char of the current line
        self.toks: List[Token] = []

    # -- helpers ---------------------------------------------------------
    def err(self, msg: str, pos: int | None = None):
        if pos is None:
            pos = self.pos
        # compute line/col of pos (pos may be before the current line start
        # only for multi-line tokens; recompute robustly)
        line = self.src.count("\n", 0, pos) + 1
        ls = self.src.rfind("\n", 0, pos) + 1
        raise GoSyntaxError(msg, line, pos - ls + 1)

    def col(self, pos: int) -> int:
        return pos - self.line_start + 1

    def need_semi(self) -> bool:
        if not self.toks:
            return False
        t = self.toks[-1]
        k = t.kind
        if k in ("IDENT", "INT", "FLOAT", "IMAG", "RUNE", "STRING"):
            return True
        if k == "KEYWORD":
            return t.text in _SEMI_KEYWORDS
        if k == "OP":
            return t.value in _SEMI_OPS and t.text == t.value
        return False

    def newline_semi(self, pos: int, text: str = "\n"):
        if self.need_semi():
            self.toks.append(Token("OP", text, ";", self.line, self.col(pos)))

    # -- main loop -------------------------------------------------------
    def run(self) -> List[Token]:
        src, n = self.src, self.n
        toks = self.toks
        ws_match = _WS_RE.match
        id_match = _IDENT_RE.match
        op_match = _OP_RE.match
        while True:
            m = ws_match(src, self.pos)
            if m:
                self.pos = m.end()
            pos = self.pos
            if pos >= n:
                break
            ch = src[pos]
            if ch == "\n":
                self.newline_semi(pos)
                self.pos = pos + 1
                self.line += 1
                self.line_start = self.pos
                continue
            if ch == "/" and pos + 1 < n:
                c2 = src[pos + 1]
                if c2 == "/":
                    # line comment: acts like a newline
                    e = src.find("\n", pos)
                    if e < 0:
                        e = n
                    self.pos = e
                    continue
                if c2 == "*":
                    e = src.find("*/", pos + 2)
                    if e < 0:
                        self.err("comment not terminated", pos)
                    body = src[pos:e + 2]
                    nl = body.count("\n")
                    if nl:
                        # a general comment containing newlines acts like a newline
                        self.newline_semi(pos)
                        self.line += nl
                        self.line_start = pos + body.rfind("\n") + 1
                    self.pos = e + 2
                    continue
            if ch == "\0":
                self.err("illegal character NUL", pos)
            # identifiers / keywords
            if ch == "_" or ch.isalpha():
                m = id_match(src, pos)
                if m:
                    text = m.group()
                    if not text.isascii():
                        text = self.check_ident(text, pos)
                    self.pos = pos + len(text)
                    if text in KEYWORDS:
                        toks.append(Token("KEYWORD", text, text, self.line, self.col(pos)))
                    else:
                        toks.append(Token("IDENT", text, text, self.line, self.col(pos)))
                    continue
            if "0" <= ch <= "9" or (ch == "." and pos + 1 < n and "0" <= src[pos + 1] <= "9"):
                self.number(pos)
                continue
            if ch == '"':
                self.string(pos)
                continue
            if ch == "`":
                self.raw_string(pos)
                continue
            if ch == "'":
                self.rune(pos)
                continue
            m = op_match(src, pos)
            if m:
                text = m.group()
                self.pos = m.end()
                toks.append(Token("OP", text, text, self.line, self.col(pos)))
                continue
            self.err(f"illegal character {ch!r} (U+{ord(ch):04X})", pos)
        # EOF: insert a final semicolon if needed
        self.newline_semi(self.pos, "")
        toks.append(Token("EOF", "", None, self.line, self.col(self.pos)))
        return toks

    def check_ident(self, text: str, pos: int) -> str:
        """Validate a non-ASCII identifier candidate char by char; returns the
        valid prefix (raises if even the first char is not a Go letter)."""
        out = []
        for i, c in enumerate(text):
            ok = _is_letter(c) or (i > 0 and _is_unicode_digit(c))
            if not ok:
                break
            out.append(c)
        if not out:
            self.err(f"illegal character {text[0]!r} (U+{ord(text[0]):04X})", pos)
        return "".join(out)

    # -- numbers ---------------------------------------------------------
    def digits(self, pos: int, base: int):
        """Scan digits and '_' of a given base starting at pos.  Returns
        (endpos, ndigits, invalid_digit_pos_or_-1, bad_underscore)."""
        src, n = self.src, self.n
        nd = 0
        invalid = -1
        bad_us = False
        prev_us = False
        maxd = "0123456789"[: base] if base <= 10 else None
        while pos < n:
            c = src[pos]
            if c == "_":
                if prev_us:
                    bad_us = True
                prev_us = True
                pos += 1
                continue
            if base <= 10:
                if "0" <= c <= "9":
                    if c not in maxd and invalid < 0:
                        invalid = pos
                else:
                    break
            else:
                if c not in _HEX:
                    break
            nd += 1
            prev_us = False
            pos += 1
        if prev_us:
            bad_us = True  # trailing underscore
        return pos, nd, invalid, bad_us

    def number(self, start: int):
        src, n = self.src, self.n
        pos = start
        base = 10
        prefix = ""
        kind = "INT"
        ndig = 0
        invalid = -1
        bad_us = False
        legacy_octal = False
        if src[pos] != ".":
            if src[pos] == "0" and pos + 1 < n:
                c = src[pos + 1]
                if c in "xX":
                    base, prefix, pos = 16, "x", pos + 2
                elif c in "oO":
                    base, prefix, pos = 8, "o", pos + 2
                elif c in "bB":
                    base, prefix, pos = 2, "b", pos + 2
                else:
                    # legacy octal, plain 0, or a decimal float such as 0.5 / 09.5
                    base, prefix, legacy_octal = 8, "0", True
            if prefix in ("x", "o", "b"):
                if pos < n and src[pos] == "_":
                    pos += 1  # a single '_' may follow the base prefix
                    if pos < n and src[pos] == "_":
                        bad_us = True
            scan_base = 10 if legacy_octal else base
            pos, ndig, invalid, bu = self.digits(pos, scan_base)
            bad_us = bad_us or bu
            if legacy_octal:
                # find a non-octal digit (only an error if this stays an int)
                invalid = -1
                for i in range(start, pos):
                    if src[i] in "89":
                        invalid = i
                        break
        # fractional part
        nfrac = 0
        if pos < n and src[pos] == "." and not (pos + 2 < n and src[pos:pos + 3] == "..."):
            if prefix in ("o", "b"):
                self.err("invalid radix point in " + ("octal" if prefix == "o" else "binary") + " literal", pos)
            if pos > start and src[pos - 1] == "_":
                bad_us = True
            kind = "FLOAT"
            pos += 1
            if pos < n and src[pos] == "_":
                bad_us = True
            pos, nfrac, inv2, bu = self.digits(pos, 16 if prefix == "x" else 10)
            bad_us = bad_us or bu
        if prefix in ("x", "o", "b") and ndig + nfrac == 0:
            self.err({"x": "hexadecimal", "o": "octal", "b": "binary"}[prefix] + " literal has no digits", start)
        # exponent
        has_exp = False
        if pos < n and src[pos] in "eEpP":
            e = src[pos]
            if e in "eE" and prefix == "x":
                pass  # 'e' is a hex digit, already consumed by digits(); cannot get here
            elif e in "eE" and prefix in ("o", "b"):
                self.err(f"{e!r} exponent requires decimal mantissa", pos)
            elif e in "pP" and prefix != "x":
                self.err(f"{e!r} exponent requires hexadecimal mantissa", pos)
            else:
                if pos > start and src[pos - 1] == "_":
                    bad_us = True
                pos += 1
                kind = "FLOAT"
                has_exp = True
                if pos < n and src[pos] in "+-":
                    pos += 1
                if pos < n and src[pos] == "_":
                    bad_us = True
                pos, nexp, _inv, bu = self.digits(pos, 10)
                bad_us = bad_us or bu
                if nexp == 0:
                    self.err("exponent has no digits", pos)
        if prefix == "x" and kind == "FLOAT" and not has_exp:
            self.err("hexadecimal mantissa requires a 'p' exponent", start)
        if pos < n and src[pos] == "i":
            kind = "IMAG"
            pos += 1
        text = src[start:pos]
        if kind == "INT" and invalid >= 0:
            lit = {2: "binary", 8: "octal", 10: "decimal"}[base]
            self.err(f"invalid digit {src[invalid]!r} in {lit} literal", invalid)
        if bad_us:
            self.err("'_' must separate successive digits", start)
        # a letter or digit directly after a number is an error in practice
        # (e.g. 0x1g, 12abc): Go would lex INT IDENT and the parser would fail;
        # report it here as a syntax error for clarity.
        if pos < n and (src[pos] == "_" or src[pos].isalnum()):
            self.err(f"invalid character {src[pos]!r} after number literal {text!r}", pos)
        value: object
        clean = text.replace("_", "")
        if kind == "INT":
            if prefix == "x":
                value = int(clean[2:], 16)
            elif prefix == "o":
                value = int(clean[2:], 8)
            elif prefix == "b":
                value = int(clean[2:], 2)
            elif legacy_octal and len(clean) > 1:
                value = int(clean, 8)
            else:
                value = int(clean, 10)
        elif kind == "FLOAT":
            try:
                value = float.fromhex(clean) if prefix == "x" else float(clean)
            except (ValueError, OverflowError):
                value = None
        else:
            value = None
        self.pos = pos
        self.toks.append(Token(kind, text, value, self.line, self.col(start)))

    # -- escapes ---------------------------------------------------------
    def escape(self, pos: int, quote: str):
        """Decode the escape sequence starting at src[pos] == '\\\\'.
        Returns (newpos, kind, value) where kind is 'byte' (value int 0..255)
        or 'rune' (value code point)."""
        src, n = self.src, self.n
        if pos + 1 >= n:
            self.err("escape sequence not terminated", pos)
        c = src[pos + 1]
        simple = {"a": 7, "b": 8, "f": 12, "n": 10, "r": 13, "t": 9, "v": 11, "\\": 92}
        if c in simple:
            return pos + 2, "rune", simple[c]
        if c == quote:
            return pos + 2, "rune", ord(c)
        if c in "01234567":
            d = src[pos + 1:pos + 4]
            if len(d) < 3 or any(x not in "01234567" for x in d):
                self.err("invalid octal escape sequence (needs 3 octal digits)", pos)
            v = int(d, 8)
            if v > 255:
                self.err(f"octal escape value {v} > 255", pos)
            return pos + 4, "byte", v
        if c == "x":
            d = src[pos + 2:pos + 4]
            if len(d) < 2 or any(x not in _HEX for x in d):
                self.err("invalid hex escape sequence (needs 2 hex digits)", pos)
            return pos + 4, "byte", int(d, 16)
        if c in "uU":
            k = 4 if c == "u" else 8
            d = src[pos + 2:pos + 2 + k]
            if len(d) < k or any(x not in _HEX for x in d):
                self.err(f"invalid \\{c} escape sequence (needs {k} hex digits)", pos)
            v = int(d, 16)
            if v > 0x10FFFF or 0xD800 <= v <= 0xDFFF:
                self.err("escape is invalid Unicode code point U+%04X" % v, pos)
            return pos + 2 + k, "rune", v
        self.err(f"unknown escape sequence \\{c}", pos)

    def string(self, start: int):
        src, n = self.src, self.n
        pos = start + 1
        out = bytearray()
        chunk_start = pos
        while True:
            if pos >= n:
                self.err("string literal not terminated", start)
            c = src[pos]
            if c == '"':
                out += src[chunk_start:pos].encode("utf-8", "surrogatepass")
                pos += 1
                break
            if c == "\n":
                self.err("string literal not terminated (newline in string)", start)
            if c == "\\":
                out += src[chunk_start:pos].encode("utf-8", "surrogatepass")
                pos, kind, v = self.escape(pos, '"')
                if kind == "byte":
                    out.append(v)
                else:
                    out += chr(v).encode("utf-8")
                chunk_start = pos
                continue
            pos += 1
        self.pos = pos
        value = bytes(out).decode("utf-8", "surrogateescape")
        self.toks.append(Token("STRING", src[start:pos], value, self.line, self.col(start)))

    def raw_string(self, start: int):
        src = self.src
        e = src.find("`", start + 1)
        if e < 0:
            self.err("raw string literal not terminated", start)
        body = src[start + 1:e]
        value = body.replace("\r", "")
        line, col = self.line, self.col(start)
        nl = body.count("\n")
        if nl:
            self.line += nl
            self.line_start = start + 1 + body.rfind("\n") + 1
        self.pos = e + 1
        self.toks.append(Token("STRING", src[start:e + 1], value, line, col))

    def rune(self, start: int):
        src, n = self.src, self.n
        pos = start + 1
        if pos >= n or src[pos] == "\n":
            self.err("rune literal not terminated", start)
        c = src[pos]
        if c == "'":
            self.err("empty rune literal or unescaped ' in rune literal", start)
        if c == "\\":
            pos, kind, v = self.escape(pos, "'")
        else:
            v = ord(c)
            if 0xD800 <= v <= 0xDFFF:
                self.err("invalid Unicode code point in rune literal", start)
            pos += 1
        if pos >= n or src[pos] != "'":
            self.err("rune literal not terminated (more than one character?)", start)
        pos += 1
        self.pos = pos
        self.toks.append(Token("RUNE", src[start:pos], v, self.line, self.col(start)))


def tokenize(src: str) -> List[Token]:
    """Tokenize Go source text, applying automatic semicolon insertion."""
    return _Lexer(src).run()
