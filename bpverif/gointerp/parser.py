"""Recursive descent parser for the Go subset (modelled after go/parser).

``parse_file(src)`` returns a :class:`nodes.File`.

Parsed but rejected later by the interpreter (GoUnsupported at compile time):
func literals, map types, labels/goto, fallthrough, type switches and type
assertions.  Rejected by the parser with GoUnsupported: goroutines (``go``),
channels (``chan``, ``<-``), ``select``, generics (type parameters /
instantiation).  Everything else that is not Go raises GoSyntaxError.
"""

from __future__ import annotations

from typing import List, Optional

from . import nodes as A
from .errors import GoSyntaxError, GoUnsupported
from .lexer import Token, tokenize

_BINARY_PREC = {
    "||": 1,
    "&&": 2,
    "==": 3, "!=": 3, "<": 3, "<=": 3, ">": 3, ">=": 3,
    "+": 4, "-": 4, "|": 4, "^": 4,
    "*": 5, "/": 5, "%": 5, "<<": 5, ">>": 5, "&": 5, "&^": 5,
}
_ASSIGN_OPS = frozenset(["=", ":=", "+=", "-=", "*=", "/=", "%=", "&=", "|=", "^=", "<<=", ">>=", "&^="])
_UNARY_OPS = frozenset(["+", "-", "!", "^", "&"])


class Parser:
    def __init__(self, src: str):
        self.toks: List[Token] = tokenize(src)
        self.i = 0
        self.tok: Token = self.toks[0]
        self.expr_lev = 0

    # -- token helpers ---------------------------------------------------
    def next(self) -> Token:
        t = self.tok
        if t.kind != "EOF":
            self.i += 1
            self.tok = self.toks[self.i]
        return t

    def peek(self, k: int = 1) -> Token:
        j = min(self.i + k, len(self.toks) - 1)
        return self.toks[j]

    def error(self, msg: str, tok: Optional[Token] = None):
        t = tok or self.tok
        raise GoSyntaxError(msg, t.line, t.col)

    def unsupported(self, what: str, tok: Optional[Token] = None):
        t = tok or self.tok
        raise GoUnsupported(f"{t.line}:{t.col}: {what}")

    def describe(self, t: Token) -> str:
        if t.kind == "EOF":
            return "EOF"
        if t.kind == "OP" and t.text != t.value:
            return "newline"
        return repr(t.text)

    def is_op(self, op: str) -> bool:
        t = self.tok
        return t.kind == "OP" and t.value == op

    def is_kw(self, kw: str) -> bool:
        t = self.tok
        return t.kind == "KEYWORD" and t.value == kw

    def got_op(self, op: str) -> bool:
        if self.is_op(op):
            self.next()
            return True
        return False

    def expect_op(self, op: str) -> Token:
        if not self.is_op(op):
            self.error(f"expected {op!r}, found {self.describe(self.tok)}")
        return self.next()

    def expect_kw(self, kw: str) -> Token:
        if not self.is_kw(kw):
            self.error(f"expected {kw!r}, found {self.describe(self.tok)}")
        return self.next()

    def expect_ident(self) -> A.Ident:
        t = self.tok
        if t.kind != "IDENT":
            self.error(f"expected identifier, found {self.describe(t)}")
        self.next()
        return A.Ident(t.text, line=t.line, col=t.col)

    def expect_semi(self):
        # a semicolon may be omitted before ')' or '}'
        if self.is_op(")") or self.is_op("}"):
            return
        if self.is_op(";"):
            self.next()
            return
        if self.tok.kind == "EOF":
            return
        self.error(f"expected ';' or newline, found {self.describe(self.tok)}")

    # -- file ------------------------------------------------------------
    def parse_file(self) -> A.File:
        first = self.tok
        self.expect_kw("package")
        name = self.expect_ident()
        if name.name == "_":
            self.error("invalid package name _", first)
        self.expect_semi()
        imports = []
        decls: List[A.Node] = []
        while self.is_kw("import"):
            self.next()
            if self.got_op("("):
                while not self.is_op(")") and self.tok.kind != "EOF":
                    spec = self.parse_import_spec()
                    imports.append((spec.alias, spec.path))
                    decls.append(spec)
                    self.expect_semi()
                self.expect_op(")")
            else:
                spec = self.parse_import_spec()
                imports.append((spec.alias, spec.path))
                decls.append(spec)
            self.expect_semi()
        while self.tok.kind != "EOF":
            t = self.tok
            if t.kind == "KEYWORD" and t.value in ("const", "var", "type"):
                decls.extend(self.parse_gen_decl())
            elif t.kind == "KEYWORD" and t.value == "func":
                decls.append(self.parse_func_decl())
            elif t.kind == "KEYWORD" and t.value == "import":
                self.error("imports must appear before other declarations")
            else:
                self.error(f"non-declaration statement outside function body (found {self.describe(t)})")
            self.expect_semi()
        return A.File(name.name, imports, decls, line=first.line, col=first.col)

    def parse_import_spec(self) -> A.ImportSpec:
        t = self.tok
        alias = None
        if t.kind == "IDENT":
            alias = t.text
            self.next()
        elif self.is_op("."):
            alias = "."
            self.next()
        p = self.tok
        if p.kind != "STRING":
            self.error(f"expected import path string, found {self.describe(p)}")
        self.next()
        if not p.value:
            self.error("invalid import path (empty string)", p)
        return A.ImportSpec(alias, p.value, line=t.line, col=t.col)

    # -- declarations ----------------------------------------------------
    def parse_gen_decl(self) -> List[A.Node]:
        kw = self.next().value
        out: List[A.Node] = []
        if self.got_op("("):
            idx = 0
            prev = None
            while not self.is_op(")") and self.tok.kind != "EOF":
                spec = self.parse_spec(kw, idx, prev)
                out.append(spec)
                prev = spec
                idx += 1
                self.expect_semi()
            self.expect_op(")")
        else:
            out.append(self.parse_spec(kw, 0, None))
        return out

    def parse_spec(self, kw: str, idx: int, prev):
        if kw == "const":
            return self.parse_const_spec(idx, prev)
        if kw == "var":
            return self.parse_var_spec()
        return self.parse_type_spec()

    def parse_ident_list(self) -> List[A.Ident]:
        names = [self.expect_ident()]
        while self.got_op(","):
            names.append(self.expect_ident())
        return names

    def parse_const_spec(self, idx: int, prev) -> A.ConstSpec:
        t = self.tok
        names = self.parse_ident_list()
        typ = None
        values: List[A.Node] = []
        implicit = False
        if not self.is_op("=") and not self.is_op(";") and not self.is_op(")"):
            typ = self.parse_type()
        if self.got_op("="):
            values = self.parse_expr_list()
        else:
            if typ is not None:
                self.error("const declaration with type needs an init expression", t)
            if prev is None:
                self.error("missing init expr for const declaration", t)
            typ = prev.type
            values = prev.values
            implicit = True
        if len(values) < len(names):
            self.error("missing init expr for const declaration", t)
        if len(values) > len(names):
            self.error("extra init expr in const declaration", t)
        return A.ConstSpec(names, typ, values, idx, implicit, line=t.line, col=t.col)

    def parse_var_spec(self) -> A.VarSpec:
        t = self.tok
        names = self.parse_ident_list()
        typ = None
        values: List[A.Node] = []
        if not self.is_op("="):
            typ = self.parse_type()
        if self.got_op("="):
            values = self.parse_expr_list()
        if typ is None and not values:
            self.error("variable declaration needs a type or an init expression", t)
        return A.VarSpec(names, typ, values, line=t.line, col=t.col)

    def parse_type_spec(self) -> A.TypeSpec:
        t = self.tok
        name = self.expect_ident()
        if self.is_op("["):
            # array / slice type, or type parameters (unsupported)
            lb = self.next()
            if self.got_op("]"):
                elem = self.parse_type()
                typ = A.ArrayType(None, elem, line=lb.line, col=lb.col)
            else:
                self.expr_lev += 1
                if self.is_op("..."):
                    self.next()
                    ln = "..."
                else:
                    ln = self.parse_rhs()
                self.expr_lev -= 1
                if not self.is_op("]"):
                    self.unsupported("type parameters (generics)", lb)
                self.next()
                elem = self.parse_type()
                typ = A.ArrayType(ln, elem, line=lb.line, col=lb.col)
            return A.TypeSpec(name, typ, False, line=t.line, col=t.col)
        is_alias = self.got_op("=")
        typ = self.parse_type()
        return A.TypeSpec(name, typ, is_alias, line=t.line, col=t.col)

    def parse_func_decl(self) -> A.FuncDecl:
        t = self.expect_kw("func")
        recv = None
        if self.is_op("("):
            rp = self.tok
            params = self.parse_parameters()
            if len(params) != 1 or len(params[0].names) > 1:
                self.error("method has multiple receivers" if params else "method has no receiver", rp)
            recv = params[0]
        name = self.expect_ident()
        if self.is_op("["):
            self.unsupported("type parameters (generics)")
        ftype = self.parse_signature(t)
        body = None
        if self.is_op("{"):
            self.expr_lev += 1
            body = self.parse_block()
            self.expr_lev -= 1
        return A.FuncDecl(name, recv, ftype, body, line=t.line, col=t.col)

    # -- types -----------------------------------------------------------
    def parse_type(self) -> A.Node:
        t = self.try_type()
        if t is None:
            self.error(f"expected type, found {self.describe(self.tok)}")
        return t

    def parse_type_name(self) -> A.Node:
        id_ = self.expect_ident()
        if self.is_op("."):
            self.next()
            sel = self.expect_ident()
            return A.SelectorExpr(id_, sel.name, line=id_.line, col=id_.col)
        return id_

    def try_type(self) -> Optional[A.Node]:
        t = self.tok
        if t.kind == "IDENT":
            return self.parse_type_name()
        if t.kind == "OP":
            v = t.value
            if v == "*":
                self.next()
                elem = self.parse_type()
                return A.StarExpr(elem, line=t.line, col=t.col)
            if v == "[":
                self.next()
                if self.got_op("]"):
                    elem = self.parse_type()
                    return A.ArrayType(None, elem, line=t.line, col=t.col)
                self.expr_lev += 1
                if self.is_op("..."):
                    self.next()
                    ln = "..."
                else:
                    ln = self.parse_rhs()
                self.expr_lev -= 1
                self.expect_op("]")
                elem = self.parse_type()
                return A.ArrayType(ln, elem, line=t.line, col=t.col)
            if v == "(":
                self.next()
                inner = self.parse_type()
                self.expect_op(")")
                return A.ParenExpr(inner, line=t.line, col=t.col)
            if v == "<-":
                self.unsupported("channel types")
            return None
        if t.kind == "KEYWORD":
            v = t.value
            if v == "struct":
                return self.parse_struct_type()
            if v == "func":
                self.next()
                return self.parse_signature(t)
            if v == "interface":
                return self.parse_interface_type()
            if v == "map":
                self.next()
                self.expect_op("[")
                key = self.parse_type()
                self.expect_op("]")
                val = self.parse_type()
                return A.MapType(key, val, line=t.line, col=t.col)
            if v == "chan":
                self.unsupported("channel types")
        return None

    def parse_struct_type(self) -> A.StructType:
        t = self.expect_kw("struct")
        self.expect_op("{")
        fields: List[A.Field] = []
        while not self.is_op("}") and self.tok.kind != "EOF":
            ft = self.tok
            if self.is_op("*"):
                # embedded *T
                self.next()
                tn = self.parse_type_name()
                typ = A.StarExpr(tn, line=ft.line, col=ft.col)
                fld = A.Field([], typ, None, True, line=ft.line, col=ft.col)
            elif ft.kind == "IDENT":
                nxt = self.peek()
                if nxt.kind == "OP" and nxt.value in (".", ";", "}") or nxt.kind == "STRING":
                    # embedded field T or pkg.T
                    tn = self.parse_type_name()
                    fld = A.Field([], tn, None, True, line=ft.line, col=ft.col)
                else:
                    names = self.parse_ident_list()
                    typ = self.parse_type()
                    fld = A.Field(names, typ, None, False, line=ft.line, col=ft.col)
            elif self.is_op("("):
                self.error("cannot parenthesize embedded type")
            else:
                self.error(f"expected field declaration, found {self.describe(ft)}")
            if self.tok.kind == "STRING":
                fld.tag = self.next().value
            fields.append(fld)
            self.expect_semi()
        self.expect_op("}")
        return A.StructType(fields, line=t.line, col=t.col)

    def parse_interface_type(self) -> A.InterfaceType:
        t = self.expect_kw("interface")
        self.expect_op("{")
        methods: List[A.Field] = []
        embeds: List[A.Node] = []
        while not self.is_op("}") and self.tok.kind != "EOF":
            ft = self.tok
            if ft.kind == "IDENT" and self.peek().kind == "OP" and self.peek().value == "(":
                name = self.expect_ident()
                sig = self.parse_signature(ft)
                methods.append(A.Field([name], sig, None, False, line=ft.line, col=ft.col))
            elif ft.kind == "IDENT":
                tn = self.parse_type_name()
                if self.is_op("|") or self.is_op("["):
                    self.unsupported("type constraints / generics in interface")
                embeds.append(tn)
            elif self.is_op("~"):
                self.unsupported("type constraints in interface")
            else:
                typ = self.try_type()
                if typ is None:
                    self.error(f"expected method or embedded type, found {self.describe(ft)}")
                self.unsupported("type constraints in interface", ft)
            self.expect_semi()
        self.expect_op("}")
        return A.InterfaceType(methods, embeds, line=t.line, col=t.col)

    def parse_signature(self, pos_tok: Token) -> A.FuncType:
        if self.is_op("["):
            self.unsupported("type parameters (generics)")
        params = self.parse_parameters()
        results: List[A.Field] = []
        if self.is_op("("):
            results = self.parse_parameters()
        else:
            rt = self.try_type()
            if rt is not None:
                results = [A.Field([], rt, None, False, line=rt.line, col=rt.col)]
        return A.FuncType(params, results, line=pos_tok.line, col=pos_tok.col)

    def parse_parameters(self) -> List[A.Field]:
        self.expect_op("(")
        self.expr_lev += 1
        # each entry: (name_ident_or_None, type_or_None, tok)
        entries = []
        while not self.is_op(")") and self.tok.kind != "EOF":
            t = self.tok
            if self.is_op("..."):
                self.next()
                elt = self.parse_type()
                entries.append((None, A.Ellipsis(elt, line=t.line, col=t.col), t))
            else:
                first = self.parse_type()
                if self.is_op(",") or self.is_op(")"):
                    entries.append((None, first, t))
                else:
                    # "name Type" or "name ...Type"
                    if not isinstance(first, A.Ident):
                        self.error(f"expected ',' or ')' in parameter list, found {self.describe(self.tok)}")
                    t2 = self.tok
                    if self.is_op("..."):
                        self.next()
                        elt = self.parse_type()
                        typ = A.Ellipsis(elt, line=t2.line, col=t2.col)
                    else:
                        typ = self.parse_type()
                    entries.append((first, typ, t))
            if not self.got_op(","):
                break
        self.expr_lev -= 1
        self.expect_op(")")
        named = any(e[0] is not None for e in entries)
        fields: List[A.Field] = []
        if not named:
            for _n, typ, t in entries:
                fields.append(A.Field([], typ, None, False, line=t.line, col=t.col))
            return fields
        # named: entries without explicit type are names that share the next type
        pending: List[A.Ident] = []
        for name, typ, t in entries:
            if name is None:
                if not isinstance(typ, A.Ident):
                    self.error("mixed named and unnamed parameters", t)
                pending.append(typ)
            else:
                pending.append(name)
                fields.append(A.Field(pending, typ, None, False, line=pending[0].line, col=pending[0].col))
                pending = []
        if pending:
            self.error("mixed named and unnamed parameters", entries[-1][2])
        return fields

    # -- statements ------------------------------------------------------
    def parse_block(self) -> A.BlockStmt:
        t = self.expect_op("{")
        stmts = self.parse_stmt_list()
        self.expect_op("}")
        return A.BlockStmt(stmts, line=t.line, col=t.col)

    def parse_stmt_list(self) -> List[A.Node]:
        stmts: List[A.Node] = []
        while True:
            t = self.tok
            if t.kind == "EOF" or self.is_op("}"):
                break
            if t.kind == "KEYWORD" and t.value in ("case", "default"):
                break
            s = self.parse_stmt()
            if s is not None:
                stmts.append(s)
        return stmts

    def parse_stmt(self) -> Optional[A.Node]:
        t = self.tok
        k = t.kind
        if k == "KEYWORD":
            v = t.value
            if v in ("const", "var", "type"):
                specs = self.parse_gen_decl()
                self.expect_semi()
                return A.DeclStmt(specs, line=t.line, col=t.col)
            if v == "return":
                self.next()
                results: List[A.Node] = []
                if not self.is_op(";") and not self.is_op("}"):
                    results = self.parse_expr_list()
                self.expect_semi()
                return A.ReturnStmt(results, line=t.line, col=t.col)
            if v == "if":
                return self.parse_if()
            if v == "for":
                return self.parse_for()
            if v == "switch":
                return self.parse_switch()
            if v in ("break", "continue", "goto", "fallthrough"):
                self.next()
                label = None
                if v != "fallthrough" and self.tok.kind == "IDENT":
                    label = self.next().text
                self.expect_semi()
                return A.BranchStmt(v, label, line=t.line, col=t.col)
            if v == "defer":
                self.next()
                call = self.parse_expr()
                if isinstance(call, A.ParenExpr):
                    self.error("expression in defer must not be parenthesized", t)
                if not isinstance(call, A.CallExpr):
                    self.error("expression in defer must be function call", t)
                self.expect_semi()
                return A.DeferStmt(call, line=t.line, col=t.col)
            if v == "go":
                self.unsupported("goroutines (go statement)")
            if v == "select":
                self.unsupported("select statement")
            if v in ("func", "struct", "map", "chan", "interface"):
                s = self.parse_simple_stmt()
                self.expect_semi()
                return s
            self.error(f"unexpected keyword {v!r}")
        if k == "OP":
            v = t.value
            if v == "{":
                b = self.parse_block()
                self.expect_semi()
                return b
            if v == ";":
                self.next()
                return A.EmptyStmt(line=t.line, col=t.col)
            if v in ("(", "[", "*", "&", "+", "-", "!", "^", "<-"):
                s = self.parse_simple_stmt(label_ok=False)
                self.expect_semi()
                return s
            self.error(f"expected statement, found {self.describe(t)}")
        if k == "EOF":
            self.error("unexpected EOF")
        # IDENT or literal
        s = self.parse_simple_stmt(label_ok=True)
        if isinstance(s, A.LabeledStmt):
            return s
        self.expect_semi()
        return s

    def parse_simple_stmt(self, label_ok: bool = False, range_ok: bool = False) -> A.Node:
        t = self.tok
        if range_ok and self.is_kw("range"):
            # for range x
            self.next()
            x = self.parse_expr()
            return A.RangeStmt(None, None, False, x, None, line=t.line, col=t.col)
        lhs = self.parse_expr_list()
        tk = self.tok
        if tk.kind == "OP":
            v = tk.value
            if v in _ASSIGN_OPS:
                self.next()
                if range_ok and self.is_kw("range") and v in ("=", ":="):
                    self.next()
                    x = self.parse_expr()
                    if len(lhs) > 2:
                        self.error("range clause permits at most two iteration variables", t)
                    key = lhs[0]
                    val = lhs[1] if len(lhs) > 1 else None
                    return A.RangeStmt(key, val, v == ":=", x, None, line=t.line, col=t.col)
                rhs = self.parse_expr_list()
                if v not in ("=", ":=") and (len(lhs) != 1 or len(rhs) != 1):
                    self.error(f"assignment operation {v} requires single-valued expressions", tk)
                return A.AssignStmt(lhs, v, rhs, line=t.line, col=t.col)
            if len(lhs) > 1:
                self.error(f"expected 1 expression or assignment, found {self.describe(tk)}", tk)
            if v == ":" and label_ok and isinstance(lhs[0], A.Ident):
                self.next()
                # labeled statement; an empty statement may follow (before '}')
                if self.is_op("}"):
                    inner = A.EmptyStmt(line=tk.line, col=tk.col)
                else:
                    inner = self.parse_stmt()
                return A.LabeledStmt(lhs[0].name, inner, line=t.line, col=t.col)
            if v in ("++", "--"):
                self.next()
                return A.IncDecStmt(lhs[0], v, line=t.line, col=t.col)
            if v == "<-":
                self.unsupported("channel send statement")
        if len(lhs) > 1:
            self.error(f"expected 1 expression or assignment, found {self.describe(tk)}", tk)
        return A.ExprStmt(lhs[0], line=t.line, col=t.col)

    def parse_if(self) -> A.IfStmt:
        t = self.expect_kw("if")
        init, cond = self.parse_if_header()
        body = self.parse_block()
        else_ = None
        if self.is_kw("else"):
            self.next()
            if self.is_kw("if"):
                else_ = self.parse_if()
            elif self.is_op("{"):
                else_ = self.parse_block()
                self.expect_semi()
            else:
                self.error("else must be followed by if or statement block")
        else:
            self.expect_semi()
        return A.IfStmt(init, cond, body, else_, line=t.line, col=t.col)

    def parse_if_header(self):
        if self.is_op("{"):
            self.error("missing condition in if statement")
        outer = self.expr_lev
        self.expr_lev = -1
        init = None
        cond_stmt = None
        if not self.is_op(";"):
            init = self.parse_simple_stmt()
        if self.is_op(";") and self.tok.text == ";":
            self.next()
            if self.is_op("{"):
                self.error("missing condition in if statement")
            cond_stmt = self.parse_simple_stmt()
        elif self.is_op(";"):
            # automatically inserted semicolon: "if x \n {"
            self.error("unexpected newline, expected { after if clause")
        else:
            cond_stmt = init
            init = None
        self.expr_lev = outer
        if not isinstance(cond_stmt, A.ExprStmt):
            self.error("cannot use statement as value in if condition", None)
        return init, cond_stmt.x

    def parse_for(self) -> A.Node:
        t = self.expect_kw("for")
        outer = self.expr_lev
        self.expr_lev = -1
        init = cond = post = None
        is_range = False
        if not self.is_op("{"):
            if not self.is_op(";"):
                init = self.parse_simple_stmt(range_ok=True)
                is_range = isinstance(init, A.RangeStmt)
            if not is_range and self.is_op(";"):
                if self.tok.text != ";":
                    self.error("expected for loop condition or '{', found newline")
                self.next()
                # three-clause form
                cond_stmt = None
                if not self.is_op(";"):
                    if self.is_op("{"):
                        self.error("expected for loop condition")
                    cond_stmt = self.parse_simple_stmt()
                if not self.is_op(";"):
                    self.error(f"expected ';' in for clause, found {self.describe(self.tok)}")
                if self.tok.text != ";" :
                    # "for i := 0; i < n \n {" is a syntax error in Go
                    self.error("expected ';' in for clause, found newline")
                self.next()
                if not self.is_op("{"):
                    post = self.parse_simple_stmt()
                    if isinstance(post, A.AssignStmt) and post.op == ":=":
                        self.error("cannot declare in post statement of for loop")
                if cond_stmt is not None:
                    if not isinstance(cond_stmt, A.ExprStmt):
                        self.error("cannot use statement as value in for condition")
                    cond = cond_stmt.x
            elif not is_range:
                # condition only
                if not isinstance(init, A.ExprStmt):
                    self.error("expected for loop condition")
                cond = init.x
                init = None
        self.expr_lev = outer
        body = self.parse_block()
        self.expect_semi()
        if is_range:
            init.body = body
            init.line, init.col = t.line, t.col
            return init
        return A.ForStmt(init, cond, post, body, line=t.line, col=t.col)

    def parse_switch(self) -> A.Node:
        t = self.expect_kw("switch")
        outer = self.expr_lev
        self.expr_lev = -1
        s1 = s2 = None
        if not self.is_op("{"):
            if not self.is_op(";"):
                s2 = self.parse_simple_stmt()
            if self.is_op(";"):
                if self.tok.text != ";":
                    self.error("unexpected newline, expected { after switch clause")
                self.next()
                s1 = s2
                s2 = None
                if not self.is_op("{"):
                    s2 = self.parse_simple_stmt()
        self.expr_lev = outer
        # type switch?
        bind = None
        tsx = None
        if isinstance(s2, A.AssignStmt) and s2.op == ":=" and len(s2.lhs) == 1 and len(s2.rhs) == 1 \
                and isinstance(s2.rhs[0], A.TypeAssertExpr) and s2.rhs[0].type is None:
            bind = s2.lhs[0]
            tsx = s2.rhs[0].x
        elif isinstance(s2, A.ExprStmt) and isinstance(s2.x, A.TypeAssertExpr) and s2.x.type is None:
            tsx = s2.x.x
        self.expect_op("{")
        cases: List[A.CaseClause] = []
        seen_default = False
        while self.is_kw("case") or self.is_kw("default"):
            ct = self.next()
            exprs = None
            if ct.value == "case":
                if tsx is not None:
                    exprs = [self.parse_type()]
                    while self.got_op(","):
                        exprs.append(self.parse_type())
                else:
                    exprs = self.parse_expr_list()
            else:
                if seen_default:
                    self.error("multiple defaults in switch", ct)
                seen_default = True
            self.expect_op(":")
            body = self.parse_stmt_list()
            cases.append(A.CaseClause(exprs, body, line=ct.line, col=ct.col))
        self.expect_op("}")
        self.expect_semi()
        if tsx is not None:
            return A.TypeSwitchStmt(s1, bind, tsx, cases, line=t.line, col=t.col)
        tag = None
        if s2 is not None:
            if not isinstance(s2, A.ExprStmt):
                self.error("switch expression must be an expression", t)
            tag = s2.x
        return A.SwitchStmt(s1, tag, cases, line=t.line, col=t.col)

    # -- expressions -----------------------------------------------------
    def parse_expr_list(self) -> List[A.Node]:
        out = [self.parse_expr()]
        while self.got_op(","):
            out.append(self.parse_expr())
        return out

    def parse_rhs(self) -> A.Node:
        return self.parse_expr()

    def parse_expr(self) -> A.Node:
        return self.parse_binary(1)

    def parse_binary(self, prec1: int) -> A.Node:
        x = self.parse_unary()
        while True:
            t = self.tok
            if t.kind != "OP":
                return x
            prec = _BINARY_PREC.get(t.value, 0)
            if prec < prec1:
                return x
            self.next()
            y = self.parse_binary(prec + 1)
            x = A.BinaryExpr(t.value, x, y, line=x.line, col=x.col)

    def parse_unary(self) -> A.Node:
        t = self.tok
        if t.kind == "OP":
            v = t.value
            if v in _UNARY_OPS:
                self.next()
                x = self.parse_unary()
                return A.UnaryExpr(v, x, line=t.line, col=t.col)
            if v == "*":
                self.next()
                x = self.parse_unary()
                return A.StarExpr(x, line=t.line, col=t.col)
            if v == "<-":
                self.unsupported("channel receive")
        return self.parse_primary()

    def parse_operand(self) -> A.Node:
        t = self.tok
        k = t.kind
        if k == "IDENT":
            self.next()
            return A.Ident(t.text, line=t.line, col=t.col)
        if k in ("INT", "FLOAT", "IMAG", "RUNE", "STRING"):
            self.next()
            return A.BasicLit(k, t.value, t.text, line=t.line, col=t.col)
        if k == "OP":
            if t.value == "(":
                self.next()
                self.expr_lev += 1
                x = self.parse_expr_or_type()
                self.expr_lev -= 1
                self.expect_op(")")
                return A.ParenExpr(x, line=t.line, col=t.col)
            if t.value == "[":
                typ = self.try_type()
                return typ
        if k == "KEYWORD":
            v = t.value
            if v == "func":
                self.next()
                sig = self.parse_signature(t)
                if self.is_op("{"):
                    self.expr_lev += 1
                    body = self.parse_block()
                    self.expr_lev -= 1
                    return A.FuncLit(sig, body, line=t.line, col=t.col)
                return sig
            if v in ("struct", "map", "interface", "chan"):
                typ = self.try_type()
                return typ
        self.error(f"expected expression, found {self.describe(t)}")

    def parse_expr_or_type(self) -> A.Node:
        # inside parentheses a type may appear: (*T)(x), ([]int)(x)
        t = self.tok
        if t.kind == "OP" and t.value == "[" or t.kind == "KEYWORD" and t.value in ("struct", "map", "interface", "chan", "func"):
            return self.parse_expr()
        return self.parse_expr()

    def is_literal_type(self, x: A.Node) -> bool:
        if isinstance(x, A.Ident):
            return True
        if isinstance(x, A.SelectorExpr):
            return isinstance(x.x, A.Ident)
        return isinstance(x, (A.ArrayType, A.StructType, A.MapType))

    def parse_primary(self) -> A.Node:
        x = self.parse_operand()
        while True:
            t = self.tok
            if t.kind != "OP":
                return x
            v = t.value
            if v == ".":
                self.next()
                if self.tok.kind == "IDENT":
                    sel = self.next()
                    x = A.SelectorExpr(x, sel.text, line=x.line, col=x.col)
                elif self.is_op("("):
                    self.next()
                    if self.is_kw("type"):
                        self.next()
                        typ = None
                    else:
                        typ = self.parse_type()
                    self.expect_op(")")
                    x = A.TypeAssertExpr(x, typ, line=x.line, col=x.col)
                else:
                    self.error(f"expected selector or type assertion, found {self.describe(self.tok)}")
            elif v == "[":
                x = self.parse_index_or_slice(x)
            elif v == "(":
                x = self.parse_call(x)
            elif v == "{":
                if self.is_literal_type(x) and (self.expr_lev >= 0 or not isinstance(x, (A.Ident, A.SelectorExpr))):
                    x = self.parse_composite(x)
                else:
                    return x
            else:
                return x

    def parse_index_or_slice(self, x: A.Node) -> A.Node:
        lb = self.expect_op("[")
        self.expr_lev += 1
        idx: List[Optional[A.Node]] = [None, None, None]
        ncolons = 0
        if self.is_op("]"):
            self.error("expected operand, found ']'")
        if not self.is_op(":"):
            idx[0] = self.parse_rhs()
        while self.is_op(":") and ncolons < 2:
            self.next()
            ncolons += 1
            if not self.is_op(":") and not self.is_op("]"):
                idx[ncolons] = self.parse_rhs()
        if ncolons == 0 and self.is_op(","):
            self.unsupported("generic instantiation / multiple indices", lb)
        self.expr_lev -= 1
        self.expect_op("]")
        if ncolons == 0:
            return A.IndexExpr(x, idx[0], line=x.line, col=x.col)
        slice3 = ncolons == 2
        if slice3 and (idx[1] is None or idx[2] is None):
            self.error("middle and final index required in 3-index slice", lb)
        return A.SliceExpr(x, idx[0], idx[1], idx[2], slice3, line=x.line, col=x.col)

    def parse_call(self, fun: A.Node) -> A.CallExpr:
        self.expect_op("(")
        self.expr_lev += 1
        args: List[A.Node] = []
        ellipsis = False
        while not self.is_op(")") and self.tok.kind != "EOF":
            # an argument may be a type (make([]byte, n), new(T))
            args.append(self.parse_expr_or_type_arg())
            if self.is_op("..."):
                self.next()
                ellipsis = True
            if not self.got_op(","):
                break
        self.expr_lev -= 1
        self.expect_op(")")
        return A.CallExpr(fun, args, ellipsis, line=fun.line, col=fun.col)

    def parse_expr_or_type_arg(self) -> A.Node:
        t = self.tok
        if t.kind == "KEYWORD" and t.value in ("map", "chan", "struct", "interface"):
            typ = self.parse_type()
            if self.is_op("{"):
                return self.finish_primary(self.parse_composite(typ))
            return typ
        return self.parse_expr()

    def finish_primary(self, x: A.Node) -> A.Node:
        return x

    def parse_composite(self, typ: Optional[A.Node]) -> A.CompositeLit:
        lb = self.expect_op("{")
        self.expr_lev += 1
        elts: List[A.Node] = []
        while not self.is_op("}") and self.tok.kind != "EOF":
            elts.append(self.parse_element())
            if not self.got_op(","):
                break
        self.expr_lev -= 1
        if not self.is_op("}"):
            if self.is_op(";") and self.tok.text != ";":
                self.error("unexpected newline in composite literal; possibly missing comma or }")
            self.error(f"expected ',' or '}}' in composite literal, found {self.describe(self.tok)}")
        self.next()
        line = typ.line if typ is not None else lb.line
        col = typ.col if typ is not None else lb.col
        return A.CompositeLit(typ, elts, line=line, col=col)

    def parse_element_value(self) -> A.Node:
        if self.is_op("{"):
            return self.parse_composite(None)
        return self.parse_expr()

    def parse_element(self) -> A.Node:
        x = self.parse_element_value()
        if self.is_op(":"):
            c = self.next()
            v = self.parse_element_value()
            return A.KeyValue(x, v, line=x.line, col=x.col)
        return x


def parse_file(src: str) -> A.File:
    """Parse one Go source file."""
    return Parser(src).parse_file()
