"""Expression compiler part 2: selectors, indexing, slicing, calls, builtins,
conversions and composite literals."""

from __future__ import annotations

from typing import List, Optional, Tuple

from . import gotypes as T
from . import nodes as A
from .errors import GoCompileError, GoUnsupported
from .ops import NeedBox, Op, const_literal, err, is_simple, unsupported, wrap_code, wrap_val


class Expr2Mixin:
    # ------------------------------------------------------------------
    # selectors
    # ------------------------------------------------------------------
    def x_SelectorExpr(self, e) -> Op:
        x = self.expr(e.x)
        sel = e.sel
        if x.mode == "pkg":
            unit = x.val
            ent = unit.scope.get(sel)
            if ent is None:
                if unit.opaque:
                    unsupported(e, f"{unit.path}.{sel} is not provided by the opaque stub package")
                err(e, f"undefined: {x.extra}.{sel}")
            if not T.is_exported(sel):
                err(e, f"name {sel} not exported by package {unit.name}")
            return self.pkgc.entity_op(ent, unit, e)
        if x.mode == "type":
            unsupported(e, "method expressions (T.Method)")
        self.need_value(x, e.x)
        if x.mode == "nil":
            err(e, "invalid operation: nil has no fields or methods")
        x = self.default_op(x, e.x) if x.mode == "const" and T.is_untyped(x.type) else x
        f = self.find_field(x.type, sel)
        if f is not None:
            idx, ftype, through_ptr = f
            base = self.rv(x)
            addressable = through_ptr or x.mode == "var"
            code = f"{base}[{idx}]"
            if addressable:
                return Op("var", ftype, code=code, lv=("slot", base, str(idx)), eff=x.eff)
            return Op("value", ftype, code=code, eff=x.eff)
        m = self.find_method(x.type, sel)
        if m is not None:
            return Op("method", None, val=m, extra=x)
        err(e, f"{self.describe_expr(e.x)}.{sel} undefined (type {T.type_str(x.type)} has no field or method {sel})")

    def describe_expr(self, e) -> str:
        if isinstance(e, A.Ident):
            return e.name
        if isinstance(e, A.SelectorExpr):
            return self.describe_expr(e.x) + "." + e.sel
        return "expression"

    def find_field(self, t: T.Type, name: str):
        """-> (index, field type, through_pointer) or None."""
        through_ptr = False
        u = t.underlying()
        if isinstance(u, T.Pointer):
            # automatic dereference of a pointer to struct
            su = u.elem.underlying()
            if isinstance(su, T.Struct):
                through_ptr = True
                u = su
        if not isinstance(u, T.Struct):
            return None
        i = u.index.get(name)
        if i is None:
            return None
        fld = u.fields[i]
        if not T.is_exported(name) and fld.pkg != self.pkgc.path:
            return None
        return i, fld.type, through_ptr

    def find_method(self, t: T.Type, name: str):
        """-> ('static', Method, recv_is_ptr) | ('iface', name, Signature) | None"""
        if isinstance(t, T.Named):
            u = t.underlying()
            if isinstance(u, T.Interface):
                sig = u.methods.get(name)
                if sig is not None:
                    return ("iface", name, sig)
                return None
            if isinstance(u, T.Pointer):
                return None
            m = t.methods.get(name)
            if m is not None and (T.is_exported(name) or m.pkg == self.pkgc.path):
                return ("static", m, False)
            return None
        if isinstance(t, T.Pointer) and isinstance(t.elem, T.Named):
            n = t.elem
            if isinstance(n.underlying(), (T.Interface, T.Pointer)):
                return None
            m = n.methods.get(name)
            if m is not None and (T.is_exported(name) or m.pkg == self.pkgc.path):
                return ("static", m, True)
            return None
        if isinstance(t, T.Interface):
            sig = t.methods.get(name)
            if sig is not None:
                return ("iface", name, sig)
        return None

    # ------------------------------------------------------------------
    # index / slice
    # ------------------------------------------------------------------
    def index_value(self, e, length: Optional[int]) -> Tuple[Optional[int], str, bool]:
        """Compile an index expression -> (const value or None, code, eff)."""
        i = self.value(e)
        if i.mode == "nil":
            err(e, "invalid argument: index nil must be integer")
        if T.is_untyped(i.type):
            i = self.convert_untyped(i, T.INT, e)
        elif not T.is_integer(i.type):
            err(e, f"invalid argument: index of type {T.type_str(i.type)} must be integer")
        if i.mode == "const":
            if i.val < 0:
                err(e, f"invalid argument: index {i.val} must not be negative")
            if length is not None and i.val >= length:
                err(e, f"invalid argument: index {i.val} out of bounds [0:{length}]")
            return i.val, const_literal(i.val), False
        return None, self.rv(i), i.eff

    def x_IndexExpr(self, e) -> Op:
        x = self.expr(e.x)
        if x.mode in ("type", "func", "builtin"):
            unsupported(e, "generic instantiation")
        self.need_value(x, e.x)
        if x.mode == "nil":
            err(e, "invalid operation: cannot index nil")
        if x.mode == "const" and T.is_untyped(x.type):
            x = self.default_op(x, e.x)
        t = x.type
        u = t.underlying()
        through_ptr = False
        if isinstance(u, T.Pointer) and isinstance(u.elem.underlying(), T.Array):
            u = u.elem.underlying()
            through_ptr = True
        base = self.rv(x)
        if isinstance(u, T.Array):
            cv, ic, ieff = self.index_value(e.index, u.len)
            if cv is None:
                if is_simple(ic):
                    k = f"{ic} if 0 <= {ic} < {u.len} else oob({ic}, {u.len})"
                else:
                    k = f"aix({ic}, {u.len})"
            else:
                k = ic
            code = f"{base}[{k}]"
            eff = x.eff or ieff
            if through_ptr or x.mode == "var":
                return Op("var", u.elem, code=code, lv=("slot", base, k), eff=eff)
            return Op("value", u.elem, code=code, eff=eff)
        if isinstance(u, T.Slice):
            cv, ic, ieff = self.index_value(e.index, None)
            eff = x.eff or ieff
            if is_simple(base):
                return Op("var", u.elem, code=f"sget({base}, {ic})", lv=("slot", f"{base}.a", f"six({base}, {ic})"), eff=eff)
            tmp = self.tmp()
            return Op("var", u.elem, code=f"sget({base}, {ic})",
                      lv=("slot", f"({tmp} := {base}).a", f"six({tmp}, {ic})"), eff=eff)
        if isinstance(u, T.Basic) and u.kind == "string":
            if x.mode == "const":
                cv, ic, ieff = self.index_value(e.index, len(x.val.encode("utf-8", "surrogateescape")))
            else:
                cv, ic, ieff = self.index_value(e.index, None)
            return Op("value", T.UINT8, code=f"str_index({base}, {ic})", eff=x.eff or ieff)
        err(e, f"invalid operation: cannot index value of type {T.type_str(t)}")

    def x_SliceExpr(self, e) -> Op:
        x = self.value(e.x)
        if x.mode == "nil":
            err(e, "invalid operation: cannot slice nil")
        if x.mode == "const" and T.is_untyped(x.type):
            x = self.default_op(x, e.x)
        t = x.type
        u = t.underlying()
        eff = x.eff
        parts = []
        consts = []
        for sub in (e.lo, e.hi, e.max):
            if sub is None:
                parts.append("None")
                consts.append(None)
            else:
                cv, ic, ieff = self.index_value(sub, None)
                parts.append(ic)
                consts.append(cv)
                eff = eff or ieff
        cs = [c for c in consts if c is not None]
        if cs != sorted(cs):
            err(e, "invalid slice indices: inverted")
        base = self.rv(x)
        if isinstance(u, T.Basic) and u.kind == "string":
            if e.slice3:
                err(e, "invalid operation: 3-index slice of string")
            return Op("value", t, code=f"str_slice({base}, {parts[0]}, {parts[1]})", eff=eff)
        if isinstance(u, T.Slice):
            return Op("value", t, code=f"slice_s({base}, {parts[0]}, {parts[1]}, {parts[2]})", eff=eff)
        arr = None
        if isinstance(u, T.Array):
            if x.mode != "var":
                err(e, "invalid operation: slice of unaddressable value")
            arr = u
        elif isinstance(u, T.Pointer) and isinstance(u.elem.underlying(), T.Array):
            arr = u.elem.underlying()
        if arr is None:
            err(e, f"cannot slice value of type {T.type_str(t)}")
        for c in cs:
            if c > arr.len:
                err(e, f"invalid argument: index {c} out of bounds [0:{arr.len + 1}]")
        return Op("value", T.Slice(arr.elem), code=f"slice_a({base}, {parts[0]}, {parts[1]}, {parts[2]})", eff=eff)

    # ------------------------------------------------------------------
    # calls
    # ------------------------------------------------------------------
    def x_CallExpr(self, e) -> Op:
        callee, args, res = self.call_parts(e)
        if callee is None:
            return res  # conversion / builtin: already complete
        code = f"{callee}({', '.join(args)})"
        return self.call_result(res, code)

    def call_result(self, sig: T.Signature, code: str) -> Op:
        n = len(sig.results)
        if n == 0:
            return Op("novalue", None, code=code, eff=True)
        if n == 1:
            return Op("value", sig.results[0], code=code, eff=True, fresh=True)
        return Op("tuple", T.Tuple_(list(sig.results)), code=code, eff=True)

    def call_parts(self, e):
        """-> (callee_code, [arg codes], Signature) for real calls, or
        (None, None, Op) for conversions / builtins."""
        f = self.expr(e.fun)
        if f.mode == "type":
            return None, None, self.conversion(e, f.type)
        if f.mode == "builtin":
            return None, None, self.builtin_call(e, f.val)
        if f.mode == "method":
            kind = f.val[0]
            recv: Op = f.extra
            if kind == "iface":
                _k, name, sig = f.val
                rc = self.rv(recv)
                if is_simple(rc):
                    callee = f"{rc}[0].mt[{name!r}]"
                    first = f"{rc}[1]"
                else:
                    t = self.tmp()
                    callee = f"({t} := {rc})[0].mt[{name!r}]"
                    first = f"{t}[1]"
                args = [first] + self.call_args(e, sig)
                return callee, args, sig
            _k, m, recv_is_ptr = f.val
            sig = m.sig
            callee = self.pkgc.method_ref(m)
            named = m.recv_named
            if m.ptr_recv:
                if recv_is_ptr:
                    first = self.rv(recv)
                else:
                    # x.M() with pointer receiver: &x
                    if recv.mode != "var":
                        err(e, f"cannot call pointer method {m.name} on {T.type_str(recv.type)} (not addressable)")
                    if T.is_agg(named):
                        first = recv.code
                    else:
                        lv = recv.lv
                        if lv[0] == "name":
                            raise NeedBox(lv[2])
                        first = f"Ptr({lv[1]}, {lv[2]})"
            else:
                if recv_is_ptr:
                    # (*p).M(): copy of the pointee
                    p = self.rv(recv)
                    if T.is_agg(named):
                        first = self.copy_code(named, f"nn({p})")
                    elif is_simple(p):
                        first = f"{p}.c[{p}.k]"
                    else:
                        t = self.tmp()
                        first = f"({t} := {p}).c[{t}.k]"
                else:
                    first = self.materialize(self.default_op(recv, e))
            args = [first] + self.call_args(e, sig)
            return callee, args, sig
        self.need_value(f, e.fun)
        if f.mode == "nil":
            err(e, "invalid operation: cannot call nil")
        ft = f.type
        if ft is None or not isinstance(ft.underlying(), T.Signature):
            err(e, f"invalid operation: cannot call non-function (type {T.type_str(ft) if ft else '?'})")
        sig = ft.underlying()
        callee = self.rv(f)
        if not (f.mode == "func" or is_simple(callee)):
            callee = f"({callee})"
        return callee, self.call_args(e, sig), sig

    def call_args(self, e, sig: T.Signature) -> List[str]:
        if sig.variadic:
            unsupported(e, "calls of variadic functions")
        if e.ellipsis:
            err(e, "cannot use ... in call to non-variadic function")
        params = sig.params
        args = e.args
        if len(args) == 1 and len(params) != 1:
            # f(g()) with multi-value g
            a = self.expr(args[0])
            if a.mode == "tuple":
                ts = a.type.types
                if len(ts) != len(params):
                    err(e, f"wrong number of arguments in call (have {len(ts)}, want {len(params)})")
                for i, (tt, pt) in enumerate(zip(ts, params)):
                    if not T.identical(tt, pt):
                        if self.assignable_reason(Op("value", tt, code="x"), pt) is not None or T.is_interface(pt):
                            unsupported(e, "multi-value argument passing that needs conversion")
                return [f"*{a.code}"]
            if len(params) != 1:
                err(e, f"wrong number of arguments in call (have 1, want {len(params)})")
        if len(args) != len(params):
            err(e, f"wrong number of arguments in call (have {len(args)}, want {len(params)})")
        out = []
        for a, pt in zip(args, params):
            op = self.value(a, pt)
            out.append(self.store(op, pt, a, "argument"))
        return out

    # ------------------------------------------------------------------
    # conversions
    # ------------------------------------------------------------------
    def conversion(self, e, target: T.Type) -> Op:
        if len(e.args) != 1 or e.ellipsis:
            err(e, f"conversion to {T.type_str(target)} needs exactly one argument")
        x = self.value(e.args[0], target)
        tu = target.underlying()
        if x.mode == "nil":
            return self.convert_untyped(x, target, e)
        # ---- constant conversions
        if x.mode == "const" and isinstance(tu, T.Basic):
            xt = x.type
            xk = xt.underlying().kind
            if xk == "float":
                unsupported(e, "floating-point constants")
            if xk == tu.kind:
                if not T.representable(x.val, target):
                    if tu.kind == "int":
                        err(e, f"cannot convert {x.val} (constant) to type {T.type_str(target)}: constant overflows")
                    err(e, f"cannot convert {x.val!r} to type {T.type_str(target)}")
                return Op("const", target, val=x.val)
            if xk == "int" and tu.kind == "string":
                from .rt import rune_to_str
                return Op("const", target, val=rune_to_str(x.val))
            err(e, f"cannot convert {x.val!r} ({xt.underlying().name} constant) to type {T.type_str(target)}")
        if T.is_untyped(x.type):
            # untyped non-constant (shift / comparison result) or constant to non-basic
            if isinstance(tu, T.Basic) and tu.kind == x.type.kind:
                r = self.convert_untyped(x, target, e)
                return Op("value", target, code=self.rv(r), eff=r.eff)
            x = self.default_op(x, e)
        xt = x.type
        xu = xt.underlying()
        code = self.rv(x)
        # identical underlying types (ignoring tags is not implemented)
        if T.identical(xu, tu) and not isinstance(tu, T.Interface):
            return Op("value", target, code=code, eff=x.eff, fresh=x.fresh)
        if isinstance(tu, T.Interface):
            r = self.assign_conv(x, target, e, "conversion")
            return Op("value", target, code=self.rv(r), eff=x.eff, fresh=True)
        if isinstance(xu, T.Basic) and isinstance(tu, T.Basic):
            if xu.kind == "int" and tu.kind == "int":
                if tu.lo <= xu.lo and xu.hi <= tu.hi:
                    return Op("value", target, code=code, eff=x.eff)
                return Op("value", target, code=wrap_code(tu, code), eff=x.eff)
            if xu.kind == "int" and tu.kind == "string":
                return Op("value", target, code=f"rune_to_str({code})", eff=x.eff)
            err(e, f"cannot convert value of type {T.type_str(xt)} to type {T.type_str(target)}")
        if isinstance(xu, T.Pointer) and isinstance(tu, T.Pointer):
            if T.identical(xu.elem.underlying(), tu.elem.underlying()):
                return Op("value", target, code=code, eff=x.eff)
        if isinstance(tu, T.Basic) and tu.kind == "string" and isinstance(xu, T.Slice):
            eu = xu.elem.underlying()
            if eu is T.UINT8:
                return Op("value", target, code=f"bytes_to_str({code})", eff=x.eff)
            if eu is T.INT32:
                unsupported(e, "string([]rune) conversion")
        if isinstance(tu, T.Slice) and isinstance(xu, T.Basic) and xu.kind == "string":
            eu = tu.elem.underlying()
            if eu is T.UINT8:
                return Op("value", target, code=f"str_to_bytes({code})", eff=x.eff)
            if eu is T.INT32:
                unsupported(e, "[]rune(string) conversion")
        if isinstance(xu, T.Slice) and isinstance(tu, (T.Array, T.Pointer)):
            unsupported(e, "slice to array conversion")
        if T.identical(xu, tu, ignore_tags=True) or (
                isinstance(xu, T.Pointer) and isinstance(tu, T.Pointer)
                and T.identical(xu.elem.underlying(), tu.elem.underlying(), ignore_tags=True)):
            unsupported(e, "conversion between struct types that differ only in field tags")
        err(e, f"cannot convert value of type {T.type_str(xt)} to type {T.type_str(target)}")

    # ------------------------------------------------------------------
    # builtins
    # ------------------------------------------------------------------
    def builtin_call(self, e, name: str) -> Op:
        m = getattr(self, "b_" + name, None)
        if m is None:
            unsupported(e, f"builtin {name}")
        return m(e)

    def _nargs(self, e, lo, hi=None):
        hi = lo if hi is None else hi
        if not (lo <= len(e.args) <= hi):
            err(e, f"wrong number of arguments for builtin (have {len(e.args)})")
        if e.ellipsis:
            err(e, "invalid use of ... with builtin")

    def b_len(self, e, what="len") -> Op:
        self._nargs(e, 1)
        x = self.value(e.args[0])
        if x.mode == "nil":
            err(e, f"invalid argument: nil for built-in {what}")
        if x.mode == "const" and T.is_string(x.type) and what == "len":
            return Op("const", T.INT, val=len(x.val.encode("utf-8", "surrogateescape")))
        if T.is_untyped(x.type):
            err(e, f"invalid argument for built-in {what}")
        u = x.type.underlying()
        if isinstance(u, T.Pointer) and isinstance(u.elem.underlying(), T.Array):
            u = u.elem.underlying()
        if isinstance(u, T.Array):
            if not x.eff:
                return Op("const", T.INT, val=u.len)
            return Op("value", T.INT, code=f"({self.rv(x)}, {u.len})[1]", eff=True)
        if isinstance(u, T.Slice):
            attr = "n" if what == "len" else "c"
            return Op("value", T.INT, code=f"{self.rv(x)}.{attr}", eff=x.eff)
        if what == "len" and isinstance(u, T.Basic) and u.kind == "string":
            return Op("value", T.INT, code=f"str_len({self.rv(x)})", eff=x.eff)
        err(e, f"invalid argument: {T.type_str(x.type)} for built-in {what}")

    def b_cap(self, e) -> Op:
        return self.b_len(e, "cap")

    def b_new(self, e) -> Op:
        self._nargs(e, 1)
        t = self.pkgc.resolve_type(e.args[0], self)
        if T.is_agg(t):
            return Op("value", T.Pointer(t), code=self.zero(t), fresh=True)
        return Op("value", T.Pointer(t), code=f"Ptr([{self.zero(t)}], 0)")

    def _size_arg(self, a) -> Tuple[Optional[int], str, bool]:
        op = self.value(a)
        if op.mode == "nil":
            err(a, "invalid argument: nil size")
        if T.is_untyped(op.type):
            op = self.convert_untyped(op, T.INT, a)
        elif not T.is_integer(op.type):
            err(a, f"invalid argument: size of type {T.type_str(op.type)} must be integer")
        if op.mode == "const":
            if op.val < 0:
                err(a, f"invalid argument: index {op.val} must not be negative")
            return op.val, const_literal(op.val), False
        return None, self.rv(op), op.eff

    def b_make(self, e) -> Op:
        self._nargs(e, 1, 3)
        t = self.pkgc.resolve_type(e.args[0], self)
        u = t.underlying()
        if not isinstance(u, T.Slice):
            unsupported(e, f"make({T.type_str(t)}) (only slices are implemented)")
        if len(e.args) < 2:
            err(e, "invalid operation: make of slice expects 2 or 3 arguments")
        nv, nc, neff = self._size_arg(e.args[1])
        cc, ceff, cv = "None", False, None
        if len(e.args) == 3:
            cv, cc, ceff = self._size_arg(e.args[2])
            if nv is not None and cv is not None and nv > cv:
                err(e, "invalid argument: length and capacity swapped")
        return Op("value", t, code=f"mkslice({nc}, {cc}, {self.rt_ref(u.elem)})", eff=neff or ceff, fresh=True)

    def b_append(self, e) -> Op:
        if not e.args:
            err(e, "not enough arguments for append")
        s = self.value(e.args[0])
        if s.mode == "nil":
            err(e, "first argument to append must be a typed slice; have untyped nil")
        u = s.type.underlying() if s.type else None
        if not isinstance(u, T.Slice):
            err(e, f"invalid argument: first argument to append must be a slice; have {T.type_str(s.type)}")
        et = u.elem
        rt = self.rt_ref(et)
        sc = self.rv(s)
        eff = s.eff
        if e.ellipsis:
            if len(e.args) != 2:
                err(e, "can only use ... with final argument in append")
            y = self.value(e.args[1])
            if y.mode == "nil":
                return Op("value", s.type, code=sc, eff=eff)
            if T.is_string(y.type) and et.underlying() is T.UINT8:
                y = self.default_op(y, e)
                return Op("value", s.type, code=f"append({sc}, list(str_bytes({self.rv(y)})), {rt})", eff=eff or y.eff)
            yu = y.type.underlying()
            if not isinstance(yu, T.Slice) or not T.identical(yu.elem, et):
                err(e, f"cannot use value of type {T.type_str(y.type)} as {T.type_str(s.type)} in append")
            return Op("value", s.type, code=f"append({sc}, slice_list({self.rv(y)}, {rt}), {rt})", eff=eff or y.eff)
        elems = []
        for a in e.args[1:]:
            op = self.value(a, et)
            eff = eff or op.eff
            elems.append(self.store(op, et, a, "append"))
        return Op("value", s.type, code=f"append({sc}, [{', '.join(elems)}], {rt})", eff=eff)

    def b_copy(self, e) -> Op:
        self._nargs(e, 2)
        d = self.value(e.args[0])
        s = self.value(e.args[1])
        du = d.type.underlying() if d.type is not None and d.mode != "nil" else None
        if not isinstance(du, T.Slice):
            err(e, "invalid argument: copy expects slice arguments")
        if s.mode != "nil" and T.is_string(s.type) and du.elem.underlying() is T.UINT8:
            s = self.default_op(s, e)
            return Op("value", T.INT, code=f"copy_from_str({self.rv(d)}, {self.rv(s)})", eff=True)
        su = s.type.underlying() if s.type is not None and s.mode != "nil" else None
        if not isinstance(su, T.Slice) or not T.identical(su.elem, du.elem):
            err(e, "invalid argument: arguments to copy have different element types")
        return Op("value", T.INT, code=f"copy_slice({self.rv(d)}, {self.rv(s)}, {self.rt_ref(du.elem)})", eff=True)

    def b_panic(self, e) -> Op:
        self._nargs(e, 1)
        v = self.value(e.args[0])
        if v.mode == "nil":
            code = "None"
        else:
            code = self.rv(self.assign_conv(v, T.EMPTY_INTERFACE, e, "argument to panic"))
        return Op("novalue", None, code=f"gopanic({code})", eff=True)

    # ------------------------------------------------------------------
    # composite literals
    # ------------------------------------------------------------------
    def x_CompositeLit(self, e, hint: Optional[T.Type] = None) -> Op:
        ptr_elide = False
        if e.type is None:
            if hint is None:
                err(e, "invalid composite literal: missing type")
            t = hint
            hu = hint.underlying()
            if isinstance(hu, T.Pointer) and not isinstance(hint, T.Named):
                # &T elision inside []*T{{...}}
                t = hu.elem
                ptr_elide = True
        elif isinstance(e.type, A.ArrayType) and e.type.len == "...":
            elem = self.pkgc.resolve_type(e.type.elem, self)
            t = None
            op = self.array_lit(e, None, elem)
            return op
        else:
            t = self.pkgc.resolve_type(e.type, self)
        u = t.underlying()
        if isinstance(u, T.Struct):
            op = self.struct_lit(e, t, u)
        elif isinstance(u, T.Array):
            op = self.array_lit(e, t, u.elem)
        elif isinstance(u, T.Slice):
            op = self.array_lit(e, t, u.elem, is_slice=True)
        else:
            if type(u).__name__ == "Map":
                unsupported(e, "map literals")
            err(e, f"invalid composite literal type {T.type_str(t)}")
        if ptr_elide:
            if not T.is_agg(t):
                return Op("value", hint, code=f"Ptr([{op.code}], 0)", eff=op.eff)
            return Op("value", hint, code=op.code, eff=op.eff, fresh=True)
        return op

    def struct_lit(self, e, t: T.Type, u: T.Struct) -> Op:
        n = len(u.fields)
        codes: List[Optional[str]] = [None] * n
        eff = False
        elts = e.elts
        if elts and isinstance(elts[0], A.KeyValue):
            order = []
            for kv in elts:
                if not isinstance(kv, A.KeyValue):
                    err(kv, "mixture of field:value and value elements in struct literal")
                if not isinstance(kv.key, A.Ident):
                    err(kv, "invalid field name in struct literal")
                name = kv.key.name
                i = u.index.get(name)
                if i is None or (not T.is_exported(name) and u.fields[i].pkg != self.pkgc.path):
                    err(kv, f"unknown field {name} in struct literal of type {T.type_str(t)}")
                if codes[i] is not None:
                    err(kv, f"duplicate field name {name} in struct literal")
                op = self.value(kv.value, u.fields[i].type)
                eff = eff or op.eff
                codes[i] = self.store(op, u.fields[i].type, kv.value, "struct literal")
                order.append((i, op.eff))
            idxs = [i for i, _ in order]
            if idxs != sorted(idxs) and sum(1 for _i, ef in order if ef) > 1:
                unsupported(e, "keyed struct literal whose side-effecting elements are not in field order")
        elif elts:
            if len(elts) != n:
                err(e, f"too {'few' if len(elts) < n else 'many'} values in struct literal of type {T.type_str(t)}")
            for i, (el, fld) in enumerate(zip(elts, u.fields)):
                if isinstance(el, A.KeyValue):
                    err(el, "mixture of field:value and value elements in struct literal")
                if not T.is_exported(fld.name) and fld.pkg != self.pkgc.path:
                    err(el, f"implicit assignment to unexported field {fld.name} in struct literal")
                op = self.value(el, fld.type)
                eff = eff or op.eff
                codes[i] = self.store(op, fld.type, el, "struct literal")
        for i in range(n):
            if codes[i] is None:
                codes[i] = self.zero(u.fields[i].type)
        return Op("value", t, code="[" + ", ".join(codes) + "]", eff=eff, fresh=True)

    def array_lit(self, e, t: Optional[T.Type], elem: T.Type, is_slice: bool = False) -> Op:
        """[N]T{...}, [...]T{...} (t is None) and []T{...}."""
        items = {}
        idx = 0
        maxidx = 0
        eff = False
        for el in e.elts:
            val = el
            if isinstance(el, A.KeyValue):
                k = self.value(el.key)
                if k.mode != "const" or not T.is_integer(k.type) and k.type is not T.UNTYPED_RUNE:
                    err(el, "index must be non-negative integer constant")
                if k.val < 0:
                    err(el, "index must be non-negative integer constant")
                idx = k.val
                val = el.value
            if idx in items:
                err(el, f"duplicate index {idx} in array or slice literal")
            op = self.value(val, elem)
            eff = eff or op.eff
            items[idx] = self.store(op, elem, val, "array or slice literal")
            idx += 1
            maxidx = max(maxidx, idx)
        if t is None:
            t = T.Array(maxidx, elem)
        u = t.underlying()
        if isinstance(u, T.Array):
            n = u.len
            if maxidx > n:
                err(e, f"index {maxidx - 1} out of bounds in array literal of length {n}")
        else:
            n = maxidx
        if n > 1 << 20:
            unsupported(e, "very large array literal")
        if not items:
            body = self.zero(T.Array(n, elem)) if n else "[]"
        elif len(items) == n:
            body = "[" + ", ".join(items[i] for i in range(n)) + "]"
        else:
            keys = list(items)
            if keys != sorted(keys) and eff:
                unsupported(e, "indexed array literal with side effects out of index order")
            body = "[" + ", ".join(items[i] if i in items else self.zero(elem) for i in range(n)) + "]"
        if is_slice:
            return Op("value", t, code=f"SliceV({body}, 0, {n}, {n})", eff=eff, fresh=True)
        return Op("value", t, code=body, eff=eff, fresh=True)
