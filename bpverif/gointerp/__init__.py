"""A Go-subset lexer, parser, static checker and interpreter in pure Python.

See README.md in this directory.  Public API::

    from bpverif.gointerp import (GoUnsupported, GoPanic, GoSyntaxError, GoCompileError,
                                  Token, tokenize, parse_file, static_check, Program, Value)
"""

from .errors import GoCompileError, GoPanic, GoSyntaxError, GoUnsupported
from .lexer import Token, tokenize, go_string_bytes
from .parser import parse_file
from .interp import Program, Value, Ref, RUNTIME_IMPORT_PATH, clear_caches

from .static import static_check

__all__ = [
    "GoUnsupported", "GoPanic", "GoSyntaxError", "GoCompileError", "Token", "tokenize", "go_string_bytes",
    "parse_file", "static_check", "Program", "Value", "Ref", "RUNTIME_IMPORT_PATH", "clear_caches",
]
