"""Statement compiler: Go statements -> lines of Python source."""

from __future__ import annotations

from typing import List, Optional

from . import gotypes as T
from . import nodes as A
from .errors import GoCompileError, GoUnsupported
from .ops import NeedBox, Op, const_literal, err, is_simple, unsupported

_COMPOUND = (A.IfStmt, A.ForStmt, A.RangeStmt, A.SwitchStmt, A.BlockStmt, A.LabeledStmt, A.TypeSwitchStmt)


def _has_branch(stmts, tok: str, through_switch: bool) -> bool:
    """Does the statement list contain an unlabeled ``tok`` (break/continue)
    that targets the enclosing construct?  Nested ``for`` loops capture both;
    nested ``switch`` captures ``break`` only."""
    for s in stmts:
        if isinstance(s, A.BranchStmt):
            if s.tok == tok and s.label is None:
                return True
        elif isinstance(s, A.BlockStmt):
            if _has_branch(s.stmts, tok, through_switch):
                return True
        elif isinstance(s, A.IfStmt):
            if _has_branch(s.body.stmts, tok, through_switch):
                return True
            if s.else_ is not None and _has_branch([s.else_], tok, through_switch):
                return True
        elif isinstance(s, A.LabeledStmt):
            if _has_branch([s.stmt], tok, through_switch):
                return True
        elif isinstance(s, (A.SwitchStmt, A.TypeSwitchStmt)):
            if through_switch:
                for c in s.cases:
                    if _has_branch(c.body, tok, through_switch):
                        return True
    return False


class StmtMixin:
    # ------------------------------------------------------------------
    # infrastructure
    # ------------------------------------------------------------------
    def emit(self, line: str):
        self.lines.append("    " * self.ind + line)

    def new_seg(self) -> int:
        self.lines.append(None)
        self.seg_ind[len(self.lines) - 1] = self.ind
        return len(self.lines) - 1

    def close_seg(self, seg: int, n: int):
        if n > 0:
            self.lines[seg] = "    " * self.seg_ind[seg] + f"ST[0] += {n}"

    def budget_check(self):
        self.emit("if ST[0] > ST[1]: budget()")

    def stmt_list(self, stmts):
        seg = None
        n = 0
        start = len(self.lines)
        for s in stmts:
            if isinstance(s, A.EmptyStmt):
                continue
            if seg is None:
                seg = self.new_seg()
                n = 0
            n += 1
            self.stmt(s)
            if isinstance(s, _COMPOUND):
                self.close_seg(seg, n)
                seg = None
        if seg is not None:
            self.close_seg(seg, n)
        if not any(l is not None for l in self.lines[start:]):
            self.emit("pass")

    def block(self, stmts):
        """Statements in a new scope (indentation handled by the caller)."""
        self.push_scope()
        try:
            self.stmt_list(stmts)
        finally:
            self.pop_scope()

    def stmt(self, s):
        m = getattr(self, "s_" + type(s).__name__, None)
        if m is None:
            unsupported(s, f"statement {type(s).__name__}")
        m(s)

    # ------------------------------------------------------------------
    # simple statements
    # ------------------------------------------------------------------
    def s_EmptyStmt(self, s):
        pass

    def s_BlockStmt(self, s):
        self.emit("if True:")
        self.ind += 1
        self.block(s.stmts)
        self.ind -= 1

    def s_LabeledStmt(self, s):
        unsupported(s, "labeled statements")

    def s_TypeSwitchStmt(self, s):
        unsupported(s, "type switches")

    def s_ExprStmt(self, s):
        x = s.x
        while isinstance(x, A.ParenExpr):
            x = x.x
        if not isinstance(x, A.CallExpr):
            err(s, "expression evaluated but not used")
        op = self.expr(x)
        if op.mode in ("const", "type"):
            err(s, "expression evaluated but not used")
        if op.mode not in ("novalue", "value", "tuple"):
            err(s, "expression evaluated but not used")
        f = x.fun
        while isinstance(f, A.ParenExpr):
            f = f.x
        if isinstance(f, A.Ident) and self.lookup_local(f.name) is None and f.name not in self.pkgc.scope \
                and f.name in ("len", "cap", "append", "make", "new"):
            err(s, f"{f.name}(...) evaluated but not used")
        if not op.eff and op.mode != "novalue":
            err(s, "expression evaluated but not used")
        self.emit(op.code)

    def s_IncDecStmt(self, s):
        one = Op("const", T.UNTYPED_INT, val=1)
        self.op_assign(s, s.x, "+" if s.op == "++" else "-", one, None)

    def s_DeclStmt(self, s):
        for spec in s.specs:
            if isinstance(spec, A.VarSpec):
                self.local_var_spec(spec)
            elif isinstance(spec, A.ConstSpec):
                self.local_const_spec(spec)
            else:
                unsupported(spec, "type declarations inside functions")

    def local_const_spec(self, spec):
        typ = self.pkgc.resolve_type(spec.type, self) if spec.type is not None else None
        saved = self.iota
        self.iota = spec.iota
        try:
            vals = []
            for name, ve in zip(spec.names, spec.values):
                op = self.value(ve)
                if op.mode != "const":
                    err(ve, f"{self.describe_expr(ve)} is not constant")
                if typ is not None:
                    op = self.const_to_type(op, typ, ve)
                vals.append(op)
        finally:
            self.iota = saved
        for name, op in zip(spec.names, vals):
            if name.name != "_":
                self.declare_const(name.name, op.type, op.val, name)

    def const_to_type(self, op: Op, typ: T.Type, e) -> Op:
        if not isinstance(typ.underlying(), T.Basic):
            err(e, f"invalid constant type {T.type_str(typ)}")
        if T.is_untyped(op.type):
            return self.convert_untyped(op, typ, e)
        if not T.identical(op.type, typ):
            err(e, f"cannot use constant of type {T.type_str(op.type)} as {T.type_str(typ)} value in constant declaration")
        return op

    def local_var_spec(self, spec):
        names = spec.names
        typ = self.pkgc.resolve_type(spec.type, self) if spec.type is not None else None
        if not spec.values:
            for n in names:
                lv = self.declare_var(n.name, typ, n) if n.name != "_" else None
                if lv is not None:
                    self.emit_init(lv, self.zero(typ))
            return
        if len(spec.values) == 1 and len(names) > 1:
            op = self.expr(spec.values[0])
            if op.mode != "tuple" or len(op.type.types) != len(names):
                err(spec, f"assignment mismatch: {len(names)} variables but 1 value")
            tmps = [self.tmp() for _ in names]
            self.emit(f"{', '.join(tmps)} = {op.code}")
            for n, tcode, tt in zip(names, tmps, op.type.types):
                vt = typ if typ is not None else tt
                code = self.store(Op("value", tt, code=tcode, fresh=True), vt, spec, "variable declaration")
                if n.name != "_":
                    self.emit_init(self.declare_var(n.name, vt, n), code)
            return
        if len(spec.values) != len(names):
            err(spec, f"assignment mismatch: {len(names)} variables but {len(spec.values)} values")
        codes = []
        types = []
        for n, ve in zip(names, spec.values):
            op = self.value(ve, typ)
            if typ is None:
                if op.mode == "nil":
                    err(ve, "use of untyped nil in variable declaration")
                op = self.default_op(op, ve)
                if op.mode == "func" and op.type is None:
                    unsupported(ve, "opaque function value")
                vt = op.type
            else:
                vt = typ
            codes.append(self.store(op, vt, ve, "variable declaration"))
            types.append(vt)
        if len(names) > 1:
            tmps = [self.tmp() for _ in names]
            for tcode, c in zip(tmps, codes):
                self.emit(f"{tcode} = {c}")
            codes = tmps
        for n, c, vt in zip(names, codes, types):
            if n.name == "_":
                if len(names) == 1:
                    self.emit(c)
                continue
            self.emit_init(self.declare_var(n.name, vt, n), c)

    def emit_init(self, lv, code: str):
        if lv.boxed:
            self.emit(f"{lv.py} = [{code}]")
        else:
            self.emit(f"{lv.py} = {code}")

    # ------------------------------------------------------------------
    # assignment
    # ------------------------------------------------------------------
    def s_AssignStmt(self, s):
        op = s.op
        if op == ":=":
            return self.define(s)
        if op == "=":
            return self.assign(s)
        self.op_assign(s, s.lhs[0], op[:-1], None, s.rhs[0])

    def lhs_target(self, e):
        """Compile an assignment target -> Op (mode var) or None for blank."""
        if isinstance(e, A.Ident) and e.name == "_":
            return None
        x = self.value(e)
        if x.mode != "var":
            err(e, f"cannot assign to {self.describe_expr(e)} (neither addressable nor a map index expression)")
        return x

    def hoist_target(self, x: Op, force: bool = False) -> Op:
        """Evaluate the operands of an assignment target into temporaries so
        that the target can be used (read/written) later without re-evaluating
        side effects."""
        lv = x.lv
        if lv[0] == "name":
            return x
        if lv[0] == "agg":
            if is_simple(x.code):
                return x
            t = self.tmp()
            self.emit(f"{t} = {x.code}")
            return Op("var", x.type, code=t, lv=("agg",))
        _k, c, k = lv
        if not (force or x.eff) and is_simple(c) and is_simple(k):
            return x
        if not is_simple(c):
            tc = self.tmp()
            self.emit(f"{tc} = {c}")
            c = tc
        if not is_simple(k):
            tk = self.tmp()
            self.emit(f"{tk} = {k}")
            k = tk
        return Op("var", x.type, code=f"{c}[{k}]", lv=("slot", c, k))

    def emit_store(self, x: Op, code: str, src_is_private: bool = True):
        """target <- code (code already converted to the target type)."""
        if T.is_agg(x.type):
            tgt = x.code
            from .rt import is_flat
            if is_flat(x.type):
                self.emit(f"{tgt}[:] = {code}")
            else:
                self.emit(f"{self.rt_ref(x.type)}.assign({tgt}, {code})")
            return
        lv = x.lv
        if lv[0] == "name":
            self.emit(f"{lv[1]} = {code}")
        else:
            self.emit(f"{lv[1]}[{lv[2]}] = {code}")

    def assign(self, s):
        lhs, rhs = s.lhs, s.rhs
        if len(lhs) == len(rhs) == 1:
            x = self.lhs_target(lhs[0])
            if x is None:
                v = self.value(rhs[0])
                if v.mode == "nil":
                    err(s, "use of untyped nil in assignment")
                v = self.default_op(v, rhs[0])
                self.emit(self.rv(v))
                return
            v = self.value(rhs[0], x.type)
            if x.eff or v.eff:
                # Go evaluates the operands of the target before the right-hand
                # side; Python would evaluate the target last
                x = self.hoist_target(x, force=True)
            conv = self.assign_conv(v, x.type, rhs[0])
            # aggregates: in-place element-wise copy, no private copy needed
            self.emit_store(x, self.rv(conv))
            return
        if len(rhs) == 1:
            # a, b = f()
            op = self.expr(rhs[0])
            if op.mode != "tuple" or len(op.type.types) != len(lhs):
                err(s, f"assignment mismatch: {len(lhs)} variables but {self.count_values(op)} value(s)")
            targets = []
            for le in lhs:
                x = self.lhs_target(le)
                targets.append(self.hoist_target(x, force=True) if x is not None else None)
            tmps = [self.tmp() for _ in lhs]
            self.emit(f"{', '.join(tmps)} = {op.code}")
            for x, tcode, tt, le in zip(targets, tmps, op.type.types, lhs):
                if x is None:
                    continue
                conv = self.assign_conv(Op("value", tt, code=tcode, fresh=True), x.type, le)
                self.emit_store(x, self.rv(conv))
            return
        if len(lhs) != len(rhs):
            err(s, f"assignment mismatch: {len(lhs)} variables but {len(rhs)} values")
        targets = []
        for le in lhs:
            x = self.lhs_target(le)
            targets.append(self.hoist_target(x, force=True) if x is not None else None)
        tmps = []
        for x, re_ in zip(targets, rhs):
            v = self.value(re_, x.type if x is not None else None)
            if x is None:
                if v.mode == "nil":
                    err(s, "use of untyped nil in assignment")
                code = self.rv(self.default_op(v, re_))
            else:
                code = self.store(v, x.type, re_)
            t = self.tmp()
            self.emit(f"{t} = {code}")
            tmps.append(t)
        for x, t in zip(targets, tmps):
            if x is not None:
                self.emit_store(x, t)

    @staticmethod
    def count_values(op: Op) -> int:
        if op.mode == "tuple":
            return len(op.type.types)
        if op.mode == "novalue":
            return 0
        return 1

    def define(self, s):
        lhs, rhs = s.lhs, s.rhs
        for le in lhs:
            if not isinstance(le, A.Ident):
                err(le, "non-name on left side of :=")
        names = [le.name for le in lhs]
        seen = set()
        for le in lhs:
            if le.name != "_" and le.name in seen:
                err(le, f"{le.name} repeated on left side of :=")
            seen.add(le.name)
        cur = self.scopes[-1]
        new = [n != "_" and n not in cur for n in names]
        if not any(new):
            err(s, "no new variables on left side of :=")
        # evaluate right-hand sides first (new variables are not in scope yet)
        if len(rhs) == 1 and len(lhs) > 1:
            op = self.expr(rhs[0])
            if op.mode != "tuple" or len(op.type.types) != len(lhs):
                err(s, f"assignment mismatch: {len(lhs)} variables but {self.count_values(op)} value(s)")
            tmps = [self.tmp() for _ in lhs]
            self.emit(f"{', '.join(tmps)} = {op.code}")
            vals = [Op("value", tt, code=t, fresh=True) for t, tt in zip(tmps, op.type.types)]
            rnodes = [rhs[0]] * len(lhs)
        else:
            if len(lhs) != len(rhs):
                err(s, f"assignment mismatch: {len(lhs)} variables but {len(rhs)} values")
            vals = []
            for le, is_new, re_ in zip(lhs, new, rhs):
                hint = None
                if not is_new and le.name != "_":
                    hint = cur[le.name].type
                v = self.value(re_, hint)
                vals.append(v)
            rnodes = rhs
            if len(lhs) > 1:
                # evaluate all right-hand sides into temporaries first
                out = []
                for le, is_new, v, re_ in zip(lhs, new, vals, rnodes):
                    if v.mode == "nil":
                        if is_new or le.name == "_":
                            err(re_, "use of untyped nil in assignment")
                    if is_new or le.name == "_":
                        v = self.default_op(v, re_)
                        tt = v.type
                    else:
                        tt = cur[le.name].type
                    if v.mode == "func" and v.type is None:
                        unsupported(re_, "opaque function value")
                    code = self.store(v, tt, re_)
                    t = self.tmp()
                    self.emit(f"{t} = {code}")
                    out.append(Op("value", tt, code=t, fresh=True))
                vals = out
        for le, is_new, v, re_ in zip(lhs, new, vals, rnodes):
            if le.name == "_":
                if len(lhs) == 1:
                    self.emit(self.rv(self.default_op(v, re_)))
                continue
            if is_new:
                if v.mode == "nil":
                    err(re_, "use of untyped nil in assignment")
                v = self.default_op(v, re_)
                if v.mode == "func" and v.type is None:
                    unsupported(re_, "opaque function value")
                if v.type is None:
                    err(re_, "cannot use expression as value")
                code = self.materialize(v)
                lv = self.declare_var(le.name, v.type, le)
                self.emit_init(lv, code)
            else:
                x = self.local_op(cur[le.name], le)
                if x.mode != "var":
                    err(le, f"cannot assign to {le.name}")
                conv = self.assign_conv(v, x.type, re_)
                self.emit_store(x, self.rv(conv))

    def op_assign(self, s, lhs_e, op: str, const_rhs: Optional[Op], rhs_e):
        x = self.lhs_target(lhs_e)
        if x is None:
            err(s, "cannot use _ as value")
        x = self.hoist_target(x)
        cur = Op("value", x.type, code=x.code, eff=False)
        y = const_rhs if const_rhs is not None else self.value(rhs_e)
        node = rhs_e if rhs_e is not None else s
        fake = _FakeBin(s, lhs_e, rhs_e)
        if op in ("<<", ">>"):
            r = self.shift(fake, cur, y, op)
        else:
            r = self.binary(fake, op, cur, y)
        if T.is_untyped(r.type):
            r = self.convert_untyped(r, x.type, node)
        if not T.identical(r.type, x.type):
            err(s, f"invalid operation: mismatched types in {op}=")
        self.emit_store(x, self.rv(r))

    # ------------------------------------------------------------------
    # control flow
    # ------------------------------------------------------------------
    def cond_code(self, e) -> str:
        c = self.value(e)
        if c.mode == "nil" or not T.is_boolean(c.type):
            err(e, "non-boolean condition")
        if c.mode == "const":
            return "True" if c.val else "False"
        return self.rv(c)

    def s_IfStmt(self, s, is_elif: bool = False):
        self.push_scope()
        try:
            if s.init is not None:
                if is_elif:
                    raise AssertionError("elif with init must be nested")
                self.stmt(s.init)
            cond = self.cond_code(s.cond)
            self.emit(("elif " if is_elif else "if ") + cond + ":")
            self.ind += 1
            self.block(s.body.stmts)
            self.ind -= 1
            el = s.else_
            if el is not None:
                if isinstance(el, A.IfStmt) and el.init is None:
                    self.s_IfStmt(el, is_elif=True)
                else:
                    self.emit("else:")
                    self.ind += 1
                    if isinstance(el, A.IfStmt):
                        self.stmt_list([el])
                    else:
                        self.block(el.stmts)
                    self.ind -= 1
        finally:
            self.pop_scope()

    def loop_prologue(self, entry):
        """First lines of a Go loop body: step budget and the placeholder of
        the continue-flag reset."""
        self.budget_check()
        self.lines.append(None)
        entry["flag_line"] = len(self.lines) - 1
        entry["flag_ind"] = self.ind

    def s_ForStmt(self, s):
        self.push_scope()
        try:
            loopvars = set()
            if s.init is not None:
                before = set(self.scopes[-1])
                self.stmt(s.init)
                loopvars = set(self.scopes[-1]) - before
                for n in loopvars:
                    if self.scopes[-1][n].boxed:
                        unsupported(s, "taking the address of a for-loop variable (per-iteration semantics differ between Go versions)")
            body = s.body.stmts
            need_first = s.post is not None and _has_branch(body, "continue", True)
            entry = {"kind": "for", "cont_flag": None}
            if need_first:
                first = self.tmp()
                self.emit(f"{first} = True")
                self.emit("while True:")
                self.ind += 1
                self.emit(f"if {first}: {first} = False")
                self.emit("else:")
                self.ind += 1
                self.post_stmt(s.post)
                self.ind -= 1
                if s.cond is not None:
                    self.emit(f"if not {self.cond_code(s.cond)}: break")
            else:
                if s.cond is not None:
                    self.emit(f"while {self.cond_code(s.cond)}:")
                else:
                    self.emit("while True:")
                self.ind += 1
            self.loops.append(entry)
            self.loop_prologue(entry)
            self.block(body)
            self.loops.pop()
            if s.post is not None and not need_first:
                self.post_stmt(s.post)
            self.ind -= 1
        finally:
            self.pop_scope()

    def post_stmt(self, p):
        start = len(self.lines)
        self.stmt(p)
        if len(self.lines) == start:
            self.emit("pass")

    def s_RangeStmt(self, s):
        self.push_scope()
        try:
            x = self.value(s.x)
            if x.mode == "nil":
                err(s.x, "cannot range over nil")
            if x.mode == "const" or T.is_untyped(x.type):
                unsupported(s.x, "range over constants / integers / strings")
            t = x.type
            u = t.underlying()
            is_ptr = False
            if isinstance(u, T.Pointer) and isinstance(u.elem.underlying(), T.Array):
                u = u.elem.underlying()
                is_ptr = True
            if not isinstance(u, (T.Array, T.Slice)):
                unsupported(s.x, f"range over {T.type_str(t)}")
            elem = u.elem
            key_e, val_e = s.key, s.value
            if isinstance(key_e, A.Ident) and key_e.name == "_":
                key_e = None
            if isinstance(val_e, A.Ident) and val_e.name == "_":
                val_e = None
            r = self.tmp()
            i = self.tmp()
            if isinstance(u, T.Array):
                if val_e is None and not x.eff:
                    n_code = str(u.len)
                    r = None
                else:
                    # the range expression is evaluated once; arrays are copied
                    code = self.rv(x) if is_ptr else (self.materialize(x) if val_e is not None else self.rv(x))
                    self.emit(f"{r} = {code}")
                    n_code = str(u.len)
                elem_code = f"{r}[{i}]"
            else:
                self.emit(f"{r} = {self.rv(x)}")
                n_code = f"{r}.n"
                elem_code = f"{r}.a[{r}.o + {i}]"
            # iteration variables
            kt = vt = None
            if s.define:
                for ve in (key_e, val_e):
                    if ve is not None and not isinstance(ve, A.Ident):
                        err(ve, "non-name on left side of :=")
                if key_e is not None:
                    kt = self.declare_var(key_e.name, T.INT, key_e)
                if val_e is not None:
                    vt = self.declare_var(val_e.name, elem, val_e)
                for lv in (kt, vt):
                    if lv is not None and lv.boxed:
                        unsupported(s, "taking the address of a range loop variable (per-iteration semantics differ between Go versions)")
            self.emit(f"for {i} in range({n_code}):")
            self.ind += 1
            entry = {"kind": "for", "cont_flag": None}
            self.loops.append(entry)
            self.loop_prologue(entry)
            if s.define:
                if kt is not None:
                    self.emit(f"{kt.py} = {i}")
                if vt is not None:
                    vcode = elem_code
                    if T.is_agg(elem):
                        vcode = self.copy_code(elem, elem_code)
                    self.emit(f"{vt.py} = {vcode}")
            else:
                if key_e is not None:
                    kx = self.lhs_target(key_e)
                    kx = self.hoist_target(kx)
                    conv = self.assign_conv(Op("value", T.INT, code=i), kx.type, key_e)
                    self.emit_store(kx, self.rv(conv))
                if val_e is not None:
                    vx = self.lhs_target(val_e)
                    vx = self.hoist_target(vx)
                    conv = self.assign_conv(Op("value", elem, code=elem_code), vx.type, val_e)
                    self.emit_store(vx, self.rv(conv))
            self.block(s.body.stmts)
            self.loops.pop()
            self.ind -= 1
        finally:
            self.pop_scope()

    def s_SwitchStmt(self, s):
        self.push_scope()
        try:
            if s.init is not None:
                self.stmt(s.init)
            tag = None
            if s.tag is not None:
                tv = self.value(s.tag)
                if tv.mode == "nil":
                    err(s.tag, "use of untyped nil in switch expression")
                tv = self.default_op(tv, s.tag)
                if tv.mode != "const":
                    tcode = self.tmp()
                    self.emit(f"{tcode} = {self.rv(tv)}")
                    tag = Op("value", tv.type, code=tcode)
                else:
                    tag = tv
                if not T.comparable(tv.type):
                    err(s.tag, f"cannot switch on value of type {T.type_str(tv.type)}")
            for c in s.cases:
                for st in c.body:
                    if isinstance(st, A.BranchStmt) and st.tok == "fallthrough":
                        unsupported(st, "fallthrough")
            wrapped = any(_has_branch(c.body, "break", False) for c in s.cases)
            entry = {"kind": "switch", "wrapped": wrapped, "pass_cont": None}
            if wrapped:
                self.emit("while True:")
                self.ind += 1
            self.loops.append(entry)
            default = None
            first = True
            seen_consts = {}
            for c in s.cases:
                if c.exprs is None:
                    default = c
                    continue
                conds = []
                for ce in c.exprs:
                    v = self.value(ce)
                    if tag is not None:
                        r = self.binary(_FakeBin(ce, s.tag, ce), "==", tag, v)
                        if v.mode == "const" or (r.mode == "const"):
                            cv = self.convert_untyped(v, tag.type, ce) if v.mode == "const" and T.is_untyped(v.type) and not T.is_interface(tag.type) else v
                            if cv.mode == "const":
                                key = (type(cv.val), cv.val)
                                if key in seen_consts:
                                    err(ce, f"duplicate case {cv.val!r} in expression switch")
                                seen_consts[key] = True
                    else:
                        if v.mode == "nil" or not T.is_boolean(v.type):
                            err(ce, "invalid case in switch (mismatched types, expected bool)")
                        r = v
                    if r.mode == "const":
                        conds.append("True" if r.val else "False")
                    else:
                        conds.append(self.rv(r))
                self.emit(("if " if first else "elif ") + " or ".join(conds) + ":")
                first = False
                self.ind += 1
                self.block(c.body)
                self.ind -= 1
            if default is not None:
                self.emit("if True:" if first else "else:")
                self.ind += 1
                self.block(default.body)
                self.ind -= 1
            self.loops.pop()
            if wrapped:
                self.emit("break")
                self.ind -= 1
                flag = entry["pass_cont"]
                if flag is not None:
                    # a `continue` travelled through this wrapper loop
                    self.propagate_continue(flag)
        finally:
            self.pop_scope()

    def propagate_continue(self, flag: str):
        """After a wrapped switch: forward a pending `continue`."""
        # find the next enclosing python loop
        for ent in reversed(self.loops):
            if ent["kind"] == "for":
                self.emit(f"if {flag}: continue")
                return
            if ent["kind"] == "switch" and ent["wrapped"]:
                ent["pass_cont"] = flag
                self.emit(f"if {flag}: break")
                return
        raise AssertionError("continue flag without loop")

    def s_BranchStmt(self, s):
        if s.label is not None:
            unsupported(s, "labeled break/continue/goto")
        tok = s.tok
        if tok == "goto":
            unsupported(s, "goto")
        if tok == "fallthrough":
            unsupported(s, "fallthrough")
        if tok == "break":
            if not self.loops:
                err(s, "break is not in a loop or switch")
            self.emit("break")
            return
        # continue
        target = None
        through = []
        for ent in reversed(self.loops):
            if ent["kind"] == "for":
                target = ent
                break
            if ent["wrapped"]:
                through.append(ent)
        if target is None:
            err(s, "continue is not in a loop")
        if not through:
            self.emit("continue")
            return
        flag = target["cont_flag"]
        if flag is None:
            flag = target["cont_flag"] = self.tmp()
            self.lines[target["flag_line"]] = "    " * target["flag_ind"] + f"{flag} = False"
        self.emit(f"{flag} = True")
        self.emit("break")
        through[0]["pass_cont"] = flag

    def s_ReturnStmt(self, s):
        sig = self.sig
        nres = len(sig.results)
        results = s.results
        if not results:
            if nres == 0:
                self.emit("return")
                return
            if self.named_results is None:
                err(s, "not enough return values")
            codes = []
            for lv in self.named_results:
                op = self.local_op(lv, s)
                codes.append(self.materialize(op))
            self.emit("return " + (codes[0] if nres == 1 else "(" + ", ".join(codes) + ")"))
            return
        if nres == 0:
            err(s, "too many return values")
        if len(results) == 1 and nres > 1:
            op = self.expr(results[0])
            if op.mode != "tuple" or len(op.type.types) != nres:
                err(s, "wrong number of return values")
            same = all(T.identical(a, b) for a, b in zip(op.type.types, sig.results))
            if same:
                self.emit(f"return {op.code}")
                return
            tmps = [self.tmp() for _ in range(nres)]
            self.emit(f"{', '.join(tmps)} = {op.code}")
            codes = [self.store(Op("value", tt, code=t, fresh=True), rt_, s, "return statement")
                     for t, tt, rt_ in zip(tmps, op.type.types, sig.results)]
            self.emit("return (" + ", ".join(codes) + ")")
            return
        if len(results) != nres:
            err(s, f"wrong number of return values (have {len(results)}, want {nres})")
        codes = []
        for re_, rt_ in zip(results, sig.results):
            v = self.value(re_, rt_)
            codes.append(self.store(v, rt_, re_, "return statement"))
        self.emit("return " + (codes[0] if nres == 1 else "(" + ", ".join(codes) + ")"))

    def s_DeferStmt(self, s):
        callee, args, res = self.call_parts(s.call)
        if callee is None:
            unsupported(s, "defer of a builtin or conversion")
        self.uses_defer = True
        if len(args) == 1:
            self.emit(f"_defers.append(({callee}, ({args[0]},)))")
        else:
            self.emit(f"_defers.append(({callee}, ({', '.join(args)})))")


class _FakeBin:
    """Position carrier that looks like a BinaryExpr for error reporting."""

    def __init__(self, pos, x, y):
        self.line = getattr(pos, "line", 0)
        self.col = getattr(pos, "col", 0)
        self.x = x if x is not None else pos
        self.y = y if y is not None else pos
