"""Name-sharing twins (C18): a deep copy of a unit that keeps every file name and every
definition name but differs in ONE number (a width, a capacity, an enum value) or one field.

This is the input an identity-vs-name mix-up in a process-global cache needs: whatever is
memoised for `Abbey.speed` of the first schema is wrong for `Abbey.speed` of the second."""

from __future__ import annotations

import copy
from typing import Any, Callable, List, Optional, Tuple

from hypothesis import strategies as st

from . import ref
from .model import Alias, Enum, Field, Message, TArray, TBase, Unit, iter_enums, iter_messages, set_parents

Undo = Callable[[], None]
Site = Tuple[str, Callable[[], Undo]]


def _width_site(t: TBase) -> Optional[Callable[[], Undo]]:
    if t.kind not in ("uint", "int"):
        return None

    def apply() -> Undo:
        old = t.bits
        t.bits = old + 1 if old < 64 else old - 1

        def undo() -> None:
            t.bits = old

        return undo

    return apply


def _cap_site(t: TArray) -> Optional[Callable[[], Undo]]:
    if t.cap_text is not None:
        return None

    def apply() -> Undo:
        old = t.cap
        t.cap = old + 1 if old < 65535 else old - 1

        def undo() -> None:
            t.cap = old

        return undo

    return apply


def _type_sites(owner: str, t: Any, out: List[Site]) -> None:
    if isinstance(t, TBase):
        s = _width_site(t)
        if s:
            out.append(("width:" + owner, s))
    elif isinstance(t, TArray):
        s = _cap_site(t)
        if s:
            out.append(("capacity:" + owner, s))
        if isinstance(t.elem, TBase):
            s = _width_site(t.elem)
            if s:
                out.append(("width:" + owner, s))


def _enum_site(e: Enum) -> Optional[Callable[[], Undo]]:
    if not e.members:
        return None
    used = set(e.values())
    name, v = e.members[-1]
    top = (1 << e.bits) - 1
    cand = [x for x in (v + 1, v - 1, v + 2, v - 2, top, 0) if 0 <= x <= top and x not in used]
    if not cand:
        return None
    new = cand[0]

    def apply() -> Undo:
        e.members[-1] = (name, new)

        def undo() -> None:
            e.members[-1] = (name, v)

        return undo

    return apply


def _field_sites(m: Message, out: List[Site]) -> None:
    flds = m.fields()
    if flds:
        last = flds[-1]

        def drop() -> Undo:
            idx = m.items.index(last)
            m.items.pop(idx)

            def undo() -> None:
                m.items.insert(idx, last)

            return undo

        out.append(("field_removed:" + m.name, drop))
    used = {f.number for f in flds}
    free = [n for n in range(1, 256) if n not in used]
    if free and "zz_extra" not in {f.name for f in flds}:

        def add() -> Undo:
            f = Field("zz_extra", TBase("uint", 3), free[0], parent=m)
            m.items.append(f)

            def undo() -> None:
                m.items.remove(f)

            return undo

        out.append(("field_added:" + m.name, add))


def sites(unit: Unit) -> List[Site]:
    out: List[Site] = []
    for f in unit.files:
        tag = f.base + ":"
        for it in f.items:
            if isinstance(it, Alias):
                _type_sites(tag + it.name, it.type, out)
        for e in iter_enums(f):
            s = _enum_site(e)
            if s:
                out.append(("enum_value:" + tag + e.name, s))
        for m in iter_messages(f):
            for fld in m.fields():
                _type_sites(tag + m.name + "." + fld.name, fld.type, out)
            _field_sites(m, out)
    return out


def _valid(unit: Unit) -> bool:
    for f in unit.files:
        for m in iter_messages(f):
            if ref.nbits(m) > 65535:
                return False
    return True


def make_twin(draw: Any, unit: Unit) -> Optional[Tuple[Unit, str]]:
    """(twin, what differs) or None if the unit offers no mutable number."""
    tw = copy.deepcopy(unit)
    set_parents(tw)
    ss = sites(tw)
    if not ss:
        return None
    # choose the kind first so that rare kinds (enum value, capacity) are not drowned by widths
    kinds = sorted({lab.split(":")[0] for lab, _ in ss})
    kind = draw(st.sampled_from(kinds))
    ss = [s for s in ss if s[0].split(":")[0] == kind]
    k = draw(st.integers(0, len(ss) - 1))
    for off in range(len(ss)):
        lab, apply = ss[(k + off) % len(ss)]
        undo = apply()
        if _valid(tw):
            return tw, lab
        undo()
    return None
