"""C13 helper: integer constant expression trees, an independent evaluator,
a renderer (minimal / redundant parentheses, random spacing), alternative
(deliberately wrong) semantics used to measure how discriminating a generated
expression is, string-constant alphabet and source rendering, and the
Hypothesis strategies that build them.

Nothing here looks at bitproto.  The expected value of an expression is
computed on the TREE the generator built; the renderer is cross-checked on
every case by two independent readings of the rendered TEXT (a small
precedence-climbing parser below and Python's own expression grammar).
"""

from __future__ import annotations

from dataclasses import dataclass, field
from typing import Any, Callable, Dict, List, Optional, Sequence, Tuple

from hypothesis import strategies as st

INT64_MAX = (1 << 63) - 1  # emitted integer constants are kept in [-INT64_MAX, INT64_MAX]

PREC = {"+": 1, "-": 1, "*": 2, "/": 2}

# ---------------------------------------------------------------------------
# Trees
# ---------------------------------------------------------------------------


@dataclass
class Lit:
    value: int
    text: str  # as written: decimal (possibly with leading zeros) or 0x...


@dataclass
class Ref:
    text: str  # as written: NAME | imp.NAME | imp.imp2.NAME
    value: int  # value of the referenced (earlier) integer constant
    target: Any = None  # the referenced constant definition (model object of the check)


@dataclass
class Bin:
    op: str
    l: Any
    r: Any


@dataclass
class Par:
    """Explicit (redundant or not) pair of parentheses around e."""

    e: Any


Expr = Any


def evaluate(e: Expr) -> int:
    """Ordinary integer arithmetic on the tree.  Division is only defined here for
    dividend >= 0 and divisor > 0, where floor, truncation and Euclidean division
    agree; the generator never builds anything else."""
    if isinstance(e, (Lit, Ref)):
        return e.value
    if isinstance(e, Par):
        return evaluate(e.e)
    a, b = evaluate(e.l), evaluate(e.r)
    if e.op == "+":
        return a + b
    if e.op == "-":
        return a - b
    if e.op == "*":
        return a * b
    if e.op == "/":
        if a < 0 or b <= 0:
            raise ValueError(f"division outside the unambiguous domain: {a} / {b}")
        # quotient by definition: the largest q with q*b <= a (no use of // or /)
        lo, hi = 0, a
        while lo < hi:
            mid = (lo + hi + 1) >> 1
            if mid * b <= a:
                lo = mid
            else:
                hi = mid - 1
        return lo
    raise TypeError(e)


def max_abs_intermediate(e: Expr) -> int:
    if isinstance(e, (Lit, Ref)):
        return abs(e.value)
    if isinstance(e, Par):
        return max_abs_intermediate(e.e)
    return max(abs(evaluate(e)), max_abs_intermediate(e.l), max_abs_intermediate(e.r))


# ---------------------------------------------------------------------------
# Rendering: tokens (text, python-text) with the parentheses the tree needs
# ---------------------------------------------------------------------------


def tokens(e: Expr) -> List[Tuple[str, str, Any]]:
    """[(kind, text, value)] kind in lit|ref|op|lp|rp.  Parentheses are added exactly
    where the ordinary rules (precedence; left associativity) need them to make the
    text denote this tree, plus the explicit Par nodes."""
    out: List[Tuple[str, str, Any]] = []
    _tok(e, out)
    return out


def _prec(e: Expr) -> int:
    if isinstance(e, Bin):
        return PREC[e.op]
    return 9


def _tok(e: Expr, out: List[Tuple[str, str, Any]]) -> None:
    if isinstance(e, Lit):
        out.append(("lit", e.text, e.value))
    elif isinstance(e, Ref):
        out.append(("ref", e.text, e.value))
    elif isinstance(e, Par):
        out.append(("lp", "(", None))
        _tok(e.e, out)
        out.append(("rp", ")", None))
    else:
        p = PREC[e.op]
        # left operand: parentheses iff it binds weaker
        if _prec(e.l) < p:
            out.append(("lp", "(", None))
            _tok(e.l, out)
            out.append(("rp", ")", None))
        else:
            _tok(e.l, out)
        out.append(("op", e.op, None))
        # right operand: parentheses iff it binds weaker OR EQUALLY (left associativity)
        if _prec(e.r) <= p:
            out.append(("lp", "(", None))
            _tok(e.r, out)
            out.append(("rp", ")", None))
        else:
            _tok(e.r, out)


def render(e: Expr, spaces: Sequence[str]) -> str:
    """Schema text of e; spaces[k % len] is put before token k (k >= 1)."""
    toks = tokens(e)
    s = ""
    for k, (_, text, _) in enumerate(toks):
        if k:
            s += spaces[k % len(spaces)] if spaces else " "
        s += text
    return s


def python_text(e: Expr) -> str:
    """The same token sequence in Python's expression grammar (// for /, plain decimal
    numbers) -- used only to cross-check the renderer against Python's parser."""
    parts = []
    for kind, text, value in tokens(e):
        if kind in ("lit", "ref"):
            parts.append(f"({value})" if value < 0 else str(value))
        elif kind == "op":
            parts.append("//" if text == "/" else text)
        else:
            parts.append(text)
    return " ".join(parts)


# ---------------------------------------------------------------------------
# A second reader of the rendered token sequence (configurable, so that it
# can also evaluate the text under deliberately WRONG rules)
# ---------------------------------------------------------------------------


class _Undefined(Exception):
    pass


def read_tokens(
    toks: List[Tuple[str, str, Any]],
    prec: Optional[Dict[str, int]] = None,
    right_assoc: Sequence[str] = (),
    div: Optional[Callable[[int, int], int]] = None,
) -> Optional[int]:
    """Precedence climbing over the token list.  Returns None where the chosen
    (wrong) semantics divides by zero."""
    prec = prec or PREC
    pos = [0]

    def dodiv(a: int, b: int) -> int:
        if b == 0:
            raise _Undefined()
        if div is not None:
            return div(a, b)
        return a // b

    def primary() -> int:
        kind, text, value = toks[pos[0]]
        if kind in ("lit", "ref"):
            pos[0] += 1
            return value
        if kind == "lp":
            pos[0] += 1
            v = expr(1)
            assert toks[pos[0]][0] == "rp"
            pos[0] += 1
            return v
        raise AssertionError(toks[pos[0]])

    def expr(minp: int) -> int:
        lhs = primary()
        while pos[0] < len(toks) and toks[pos[0]][0] == "op" and prec[toks[pos[0]][1]] >= minp:
            op = toks[pos[0]][1]
            pos[0] += 1
            rhs = expr(prec[op] if op in right_assoc else prec[op] + 1)
            if op == "+":
                lhs = lhs + rhs
            elif op == "-":
                lhs = lhs - rhs
            elif op == "*":
                lhs = lhs * rhs
            else:
                lhs = dodiv(lhs, rhs)
        return lhs

    try:
        v = expr(1)
    except _Undefined:
        return None
    assert pos[0] == len(toks)
    return v


WRONG_SEMANTICS: Dict[str, Dict[str, Any]] = {
    # name -> kwargs of read_tokens
    "right_assoc_addsub": {"right_assoc": ("+", "-")},
    "right_assoc_muldiv": {"right_assoc": ("*", "/")},
    "swapped_precedence": {"prec": {"+": 2, "-": 2, "*": 1, "/": 1}},
    "flat_precedence": {"prec": {"+": 1, "-": 1, "*": 1, "/": 1}},
    "float_division": {"div": lambda a, b: int(a / b)},
    "ceil_division": {"div": lambda a, b: -((-a) // b)},
}


def sensitivity(e: Expr) -> List[str]:
    """Names of the wrong semantics under which the rendered text would evaluate to a
    different value (or to nothing): the expression discriminates against them."""
    toks = tokens(e)
    want = evaluate(e)
    out = []
    for name, kw in WRONG_SEMANTICS.items():
        if read_tokens(toks, **kw) != want:
            out.append(name)
    return out


def self_check(e: Expr) -> int:
    """Value of e; raises AssertionError if the three readings disagree (harness bug)."""
    v = evaluate(e)
    toks = tokens(e)
    v2 = read_tokens(toks)
    v3 = eval(python_text(e), {"__builtins__": {}}, {})  # noqa: S307 - text is built from ints and operators only
    assert v == v2 == v3, (v, v2, v3, python_text(e))
    return v


# ---------------------------------------------------------------------------
# Structure labels
# ---------------------------------------------------------------------------


def shape_labels(e: Expr) -> List[str]:
    labs: set = set()
    ops: set = set()

    def walk(x: Expr, parent: Optional[Bin], side: str) -> None:
        if isinstance(x, Lit):
            labs.add("lit_hex" if x.text.lower().startswith("0x") else "lit_dec")
            if not x.text.lower().startswith("0x") and len(x.text) > 1 and x.text[0] == "0":
                labs.add("lit_dec_leading_zero")
            if x.value > (1 << 53):
                labs.add("lit_gt_2p53")
            if x.value > (1 << 32):
                labs.add("lit_gt_2p32")
        elif isinstance(x, Ref):
            labs.add("ref")
            dots = x.text.count(".")
            if dots == 1:
                labs.add("ref_import")
            elif dots >= 2:
                labs.add("ref_two_hop")
        elif isinstance(x, Par):
            labs.add("par_explicit")
            if isinstance(x.e, (Lit, Ref, Par)):
                labs.add("par_redundant_atom")
            elif parent is not None and isinstance(x.e, Bin):
                p, c = PREC[parent.op], PREC[x.e.op]
                needed = c < p or (c == p and side == "r")
                labs.add("par_needed" if needed else "par_redundant_expr")
            walk(x.e, None, "")
        else:
            ops.add(x.op)
            if isinstance(x.l, Bin) and PREC[x.l.op] == PREC[x.op]:
                labs.add(f"chain:{x.l.op}{x.op}")  # a OP1 b OP2 c, no parentheses: left associativity decides
            if isinstance(x.l, Bin) and PREC[x.l.op] > PREC[x.op]:
                labs.add("prec:tighter_left")  # a*b+c
            if isinstance(x.r, Bin) and PREC[x.r.op] > PREC[x.op]:
                labs.add("prec:tighter_right")  # a+b*c  (precedence decides)
            if isinstance(x.l, Bin) and PREC[x.l.op] < PREC[x.op]:
                labs.add("group:left")  # (a+b)*c
            if isinstance(x.r, Bin) and PREC[x.r.op] <= PREC[x.op]:
                labs.add("group:right")  # a-(b-c), a*(b+c)
            if x.op == "/":
                labs.add("div")
                a, b = evaluate(x.l), evaluate(x.r)
                if b and a % b:
                    labs.add("div_inexact")
                if a > (1 << 53):
                    labs.add("div_dividend_gt_2p53")
            walk(x.l, x, "l")
            walk(x.r, x, "r")

    walk(e, None, "")
    if len({PREC[o] for o in ops}) >= 2:
        labs.add("mixed_precedence")
    if not ops:
        labs.add("single_operand")
    v = evaluate(e)
    if v < 0:
        labs.add("value_negative")
    if v == 0:
        labs.add("value_zero")
    if abs(v) > (1 << 32):
        labs.add("value_gt_2p32")
    return sorted(labs)


def is_nontrivial(e: Expr) -> bool:
    labs = shape_labels(e)
    return "mixed_precedence" in labs or "ref" in labs


def depth(e: Expr) -> int:
    if isinstance(e, (Lit, Ref)):
        return 0
    if isinstance(e, Par):
        return depth(e.e)
    return 1 + max(depth(e.l), depth(e.r))


# ---------------------------------------------------------------------------
# Strategies
# ---------------------------------------------------------------------------

SPACINGS = ["", " ", " ", "  ", "\t", " \t "]


@st.composite
def spacing(draw: Any) -> List[str]:
    mode = draw(st.integers(0, 3))
    if mode == 0:
        return [" "]
    if mode == 1:
        return [""]
    return draw(st.lists(st.sampled_from(SPACINGS), min_size=3, max_size=7))


def _lit_text(draw: Any, v: int) -> str:
    form = draw(st.integers(0, 9))
    if form <= 4:
        return str(v)
    if form == 5 and v < 10**6:
        return "0" * draw(st.integers(1, 3)) + str(v)  # decimal with leading zeros is decimal
    if form == 6:
        return "0x%X" % v
    if form == 7:
        return "0x" + "0" * draw(st.integers(1, 4)) + "%x" % v
    if form == 8:
        # mixed-case hex digits
        h = "%x" % v
        flips = draw(st.integers(0, (1 << min(len(h), 16)) - 1))
        return "0x" + "".join(c.upper() if (flips >> (k % 16)) & 1 else c for k, c in enumerate(h))
    return "0x%x" % v


@st.composite
def literal(draw: Any, size: str = "any", positive: bool = False) -> Lit:
    lo = 1 if positive else 0
    if size == "small":
        cls = draw(st.integers(0, 2))
    else:
        cls = draw(st.integers(0, 9))
    if cls <= 2:
        v = draw(st.integers(lo, 12))
    elif cls <= 4:
        v = draw(st.integers(lo, 300))
    elif cls == 5:
        v = draw(st.integers(lo, 70000))
    elif cls == 6:
        k = draw(st.integers(3, 62))
        v = (1 << k) + draw(st.integers(-2, 2))
    elif cls == 7:
        v = draw(st.integers(1 << 53, (1 << 62)))  # beyond what a double holds exactly
    elif cls == 8:
        v = draw(st.integers(lo, 1 << 33))
    else:
        v = draw(st.sampled_from([0, 1, 2, 7, 8, 10, 15, 16, 255, 256, 1000, 65535, 65536, (1 << 31) - 1, 1 << 31, (1 << 32) - 1, 1 << 32, (1 << 53) + 1, (1 << 62) - 1]))
    v = max(v, lo)
    return Lit(v, _lit_text(draw, v))


def _lit_plain(draw: Any, v: int) -> Lit:
    assert v >= 0
    return Lit(v, _lit_text(draw, v))


class ExprBuilder:
    """Builds an expression over the given visible integer constants
    [(reference text, value, target)] -- by construction: every division has a
    non-negative dividend and a positive divisor, every intermediate and the result
    stay within +-limit."""

    def __init__(self, draw: Any, refs: Sequence[Tuple[str, int, Any]], limit: int = INT64_MAX, size: str = "any"):
        self.draw = draw
        self.refs = list(refs)
        self.limit = limit
        self.size = size

    def leaf(self, positive: bool = False, nonneg: bool = False) -> Expr:
        d = self.draw
        cands = self.refs
        if positive:
            cands = [r for r in cands if r[1] > 0]
        elif nonneg:
            cands = [r for r in cands if r[1] >= 0]
        if cands and d(st.integers(0, 99)) < 40:
            t, v, tgt = cands[d(st.integers(0, len(cands) - 1))]
            x: Expr = Ref(t, v, tgt)
        else:
            x = d(literal(self.size, positive=positive))
        if d(st.integers(0, 99)) < 8:
            x = Par(x)
        return x

    def fix(self, op: str, l: Expr, r: Expr) -> Expr:
        """Combine, repairing the operands so that the node is inside the domain."""
        d = self.draw
        if op == "/":
            a, b = evaluate(l), evaluate(r)
            if a < 0:
                l = Bin("+", l, _lit_plain(d, -a + d(st.integers(0, 40))))
            if b <= 0:
                r = Bin("+", r, _lit_plain(d, -b + d(st.integers(1, 9))))
            return Bin("/", l, r)
        a, b = evaluate(l), evaluate(r)
        cand = {"+": a + b, "-": a - b, "*": a * b}
        if abs(cand[op]) <= self.limit:
            return Bin(op, l, r)
        # too large: one of + / - always fits when both operands do
        if op == "*" and a >= 0 and b > 0 and d(st.booleans()):
            return Bin("/", l, r)
        for alt in (("-", "+") if op != "-" else ("+", "-")):
            if abs(cand[alt]) <= self.limit:
                return Bin(alt, l, r)
        raise AssertionError((op, a, b))

    def tree(self, depth_: int) -> Expr:
        d = self.draw
        if depth_ <= 0 or d(st.integers(0, 99)) < 22:
            return self.leaf()
        op = d(st.sampled_from(["+", "-", "-", "*", "*", "/", "/"]))
        shape = d(st.integers(0, 9))
        if shape <= 4:  # left-deep: chains decided by associativity
            l, r = self.tree(depth_ - 1), self.tree(0 if d(st.booleans()) else depth_ - 2)
        elif shape <= 6:
            l, r = self.tree(0), self.tree(depth_ - 1)
        else:
            l, r = self.tree(depth_ - 1), self.tree(depth_ - 1)
        x = self.fix(op, l, r)
        if d(st.integers(0, 99)) < 12:
            x = Par(x)
            if d(st.integers(0, 99)) < 15:
                x = Par(x)
        return x

    TEMPLATES = [
        "a-b-c", "a/b/c", "a-b+c", "a/b*c", "a*b/c", "a+b*c", "a*b+c", "a-b*c", "a-b/c", "a/b-c", "(a+b)*c", "a*(b+c)",
        "a-(b-c)", "a-(b+c)", "a/(b/c)", "a/(b*c)", "a*(b/c)", "a-b-c-d", "a/b/c/d", "a-b*c-d", "a/b-c/d", "a+b/c*d", "(a-b)/c",
        "a*b-c*d", "a-b+c-d", "(a+b)/(c+d)", "a/b+c/d*e", "a-(b-(c-d))", "a*b*c/d",
    ]

    def from_template(self) -> Expr:
        d = self.draw
        t = self.TEMPLATES[d(st.integers(0, len(self.TEMPLATES) - 1))]
        sub = 1 if d(st.integers(0, 9)) < 2 else 0
        pos = [0]

        def primary() -> Expr:
            c = t[pos[0]]
            if c == "(":
                pos[0] += 1
                x = expr(1)
                assert t[pos[0]] == ")"
                pos[0] += 1
                return x
            pos[0] += 1
            return self.tree(sub)

        def expr(minp: int) -> Expr:
            lhs = primary()
            while pos[0] < len(t) and t[pos[0]] in PREC and PREC[t[pos[0]]] >= minp:
                op = t[pos[0]]
                pos[0] += 1
                rhs = expr(PREC[op] + 1)
                lhs = self.fix(op, lhs, rhs)
            return lhs

        x = expr(1)
        assert pos[0] == len(t)
        return x

    def build(self) -> Expr:
        d = self.draw
        k = d(st.integers(0, 99))
        if k < 8:
            return self.leaf()
        if k < 45:
            return self.from_template()
        return self.tree(d(st.integers(1, 4)))

    def fitted(self, target: int) -> Expr:
        """An expression whose value is exactly target (used where a use site needs a
        particular value: capacities, option boundaries)."""
        d = self.draw
        e = self.build()
        v = evaluate(e)
        if v == target:
            return e
        if v < target:
            return Bin("+", e, _lit_plain(d, target - v))
        return Bin("-", e, _lit_plain(d, v - target))


# ---------------------------------------------------------------------------
# String constants: the lexer's alphabet and its six escapes
# ---------------------------------------------------------------------------

# value character -> the escape that denotes it (docs: none; lexer.py: escaping_chars)
ESCAPES = {"\t": "\\t", "\r": "\\r", "\n": "\\n", "\\": "\\\\", "'": "\\'", '"': '\\"'}
# Characters that can only be written as an escape in a schema FILE: backslash and double
# quote by the token's grammar, LF because the token cannot span lines, CR because the file
# is read with universal newlines (a raw CR reaches the lexer as LF).
ESCAPE_ONLY = {"\\", '"', "\n", "\r"}

PRINTABLE = [chr(c) for c in range(0x20, 0x7F) if chr(c) not in ('"', "\\")]
CONTROL_RAW = ["\x01", "\x07", "\x0b", "\x0c", "\x1b", "\x1f", "\x7f"]
NON_ASCII = ["\u00e9", "\u00df", "\u03a9", "\u4e2d", "\u20ac", "\U0001f600", "\u00a0"]
WORDS = ["bitproto", "SOF", "v1.2", "a/b", "//", "/*", "%d", "%s", "#", "{0}", "0x1F", "true", "const", "x = 1;", "?", "$HOME", "`", "'"]


def needs_escape(lang: str, s: str) -> List[str]:
    """Characters of s that do not denote themselves when written verbatim between double
    quotes in a source file of the target language (the exact shape of recorded finding D2).
    c: gcc takes a lone CR as a line end; py: CR is a line end for the tokenizer; go:
    interpreted string literals may contain any character except newline and double quote,
    and a backslash starts an escape in all three."""
    bad = {"c": '"\\\n\r', "py": '"\\\n\r', "go": '"\\\n'}[lang]
    return sorted({ch for ch in s if ch in bad})


@dataclass
class StrConst:
    value: str
    source: str  # the token as written in the schema, including the quotes
    labels: List[str] = field(default_factory=list)


@st.composite
def string_constant(draw: Any, plain_only: bool = False) -> StrConst:
    """plain_only: no character that needs escaping in any target language (such strings are
    checked strictly everywhere); the escapes \\t and \\' and raw characters still occur."""
    n = draw(st.sampled_from([0, 1, 1, 2, 3, 4, 6, 9, 14, 24]))
    chars: List[str] = []
    long_form = draw(st.integers(0, 7)) == 5
    if long_form:
        # a LONG string: plain filler up to a length near a round / power-of-two boundary, a few characters that need an escape
        # somewhere placed right around multiples of such boundaries (buffer sizes, literal-splitting thresholds, line lengths)
        bound = draw(st.sampled_from([255, 256, 1000, 1024, 2000, 2048, 4095, 4096]))
        total = bound * draw(st.sampled_from([1, 1, 2])) + draw(st.integers(-8, 40))
        off = draw(st.integers(0, 25))
        chars = [chr(97 + (off + i) % 26) if (i + 1) % 9 else " " for i in range(max(total, 1))]
        specials = list(CONTROL_RAW) * 2 + ["\t", "'"] + list(NON_ASCII[:4]) + ([] if plain_only else ['"', "\\", "\n", "\r"])
        for _ in range(draw(st.integers(2, 6))):
            pos = bound * draw(st.integers(1, 2)) + draw(st.integers(-5, 1))
            if 0 <= pos < len(chars):
                chars[pos] = draw(st.sampled_from(specials))
        n = 0
    for _ in range(n):
        k = draw(st.integers(0, 99))
        if k < 38:
            chars.append(draw(st.sampled_from(PRINTABLE)))
        elif k < 50:
            chars.extend(draw(st.sampled_from(WORDS)))
        elif k < 58:
            chars.append("\t")
        elif k < 64:
            chars.append("'")
        elif k < 70:
            chars.append(draw(st.sampled_from(CONTROL_RAW)))
        elif k < 78:
            chars.append(draw(st.sampled_from(NON_ASCII)))
        elif plain_only:
            chars.append(draw(st.sampled_from(["\t", "'", " ", "a", "Z", "0"])))
        elif k < 84:
            chars.append('"')
        elif k < 90:
            chars.append("\\")
        elif k < 95:
            chars.append("\n")
        else:
            chars.append("\r")
    # `??` starts a trigraph in some C dialects: never adjacent question marks
    out: List[str] = []
    for ch in chars:
        if ch == "?" and out and out[-1] == "?":
            continue
        out.append(ch)
    value = "".join(out)
    src = ['"']
    labs: set = set()
    for ch in value:
        if ch in ESCAPE_ONLY:
            src.append(ESCAPES[ch])
            labs.add("str_esc:" + ESCAPES[ch])
        elif ch in ESCAPES and draw(st.booleans()):
            src.append(ESCAPES[ch])
            labs.add("str_esc:" + ESCAPES[ch])
        else:
            src.append(ch)
            if ch == "\t":
                labs.add("str_raw_tab")
            elif ch == "'":
                labs.add("str_raw_apostrophe")
            elif ch in CONTROL_RAW:
                labs.add("str_raw_control")
            elif ord(ch) > 0x7F:
                labs.add("str_non_ascii")
    src.append('"')
    if not value:
        labs.add("str_empty")
    if long_form:
        labs.add("str_long")
    if "//" in value:
        labs.add("str_contains_slashes")
    for lang in ("c", "go", "py"):
        if needs_escape(lang, value):
            labs.add("str_needs_escape:" + lang)
    return StrConst(value, "".join(src), sorted(labs))


def unescape_reference(source: str) -> str:
    """Independent reading of a string token (self test of the source renderer)."""
    assert source[0] == '"' and source[-1] == '"'
    body = source[1:-1]
    inv = {v[1]: k for k, v in ESCAPES.items()}
    out = []
    i = 0
    while i < len(body):
        if body[i] == "\\":
            out.append(inv[body[i + 1]])
            i += 2
        else:
            assert body[i] not in '"\n'
            out.append(body[i])
            i += 1
    return "".join(out)
