"""Build and run rt.c (schema-independent C runtime enumeration)."""

from __future__ import annotations

import os
import subprocess
from typing import Any, Dict, List, Tuple

from . import cexec, env

RT_SRC = os.path.join(os.path.dirname(os.path.abspath(__file__)), "rt.c")


class RtResult:
    def __init__(self, out: str, returncode: int, stderr: str):
        self.counts: Dict[str, Tuple[int, int]] = {}
        self.sums: Dict[str, str] = {}
        self.bad: List[str] = []
        self.done = False
        self.returncode = returncode
        self.stderr = stderr
        for l in out.splitlines():
            p = l.split()
            if not p:
                continue
            if p[0] == "COUNT":
                self.counts[p[1]] = (int(p[2]), int(p[3]))
            elif p[0] == "SUM":
                self.sums[p[1]] = p[2]
            elif p[0] == "BAD":
                self.bad.append(l)
            elif p[0] == "DONE":
                self.done = True


def run_rt(cc: str, opt: str, big_endian: bool, sanitize: bool = False, announce: str = "BP_BIG_ENDIAN") -> RtResult:
    d = env.scratch_dir("rt")
    exe = os.path.join(d, "rt")
    flags = [opt, "-w", "-std=gnu11"]
    if big_endian:
        flags += [*cexec.BE_ANNOUNCE[announce], "-DRT_BE=1"]
    if sanitize:
        flags += cexec.SAN_FLAGS
    cmd = [cc, *flags, "-I", env.CLIB_DIR, RT_SRC, os.path.join(env.CLIB_DIR, "bitproto.c"), "-o", exe]
    r = subprocess.run(cmd, stdout=subprocess.PIPE, stderr=subprocess.STDOUT, text=True)
    if r.returncode != 0:
        raise cexec.CBuildError("compile rt.c + runtime", " ".join(cmd) + "\n" + r.stdout)
    envv = dict(os.environ)
    envv["ASAN_OPTIONS"] = "detect_leaks=0"
    envv["UBSAN_OPTIONS"] = "print_stacktrace=1:halt_on_error=1"
    p = subprocess.run([exe], stdout=subprocess.PIPE, stderr=subprocess.PIPE, text=True, timeout=600, env=envv)
    env.rmtree(d)
    return RtResult(p.stdout, p.returncode, p.stderr)
