"""Pins the tree under test and provides scratch directories."""

from __future__ import annotations

import atexit
import os
import shutil
import sys
import tempfile

sys.dont_write_bytecode = True

VERIF_ROOT = os.path.dirname(os.path.dirname(os.path.abspath(__file__)))
REPO = os.path.abspath(os.environ.get("BPVERIF_REPO", "/repo"))
COMPILER_DIR = os.path.join(REPO, "compiler")
PYLIB_DIR = os.path.join(REPO, "lib", "py")
CLIB_DIR = os.path.join(REPO, "lib", "c")
GOLIB_DIR = os.path.join(REPO, "lib", "go")
PYTHON = sys.executable

_pinned = False


def pin() -> None:
    """Make `import bitproto` / `import bitprotolib` resolve to the repo tree."""
    global _pinned
    if _pinned:
        return
    for p in (PYLIB_DIR, COMPILER_DIR):
        if p in sys.path:
            sys.path.remove(p)
        sys.path.insert(0, p)
    for name in list(sys.modules):
        if name == "bitproto" or name.startswith("bitproto.") or name == "bitprotolib" or name.startswith("bitprotolib."):
            mod = sys.modules[name]
            f = getattr(mod, "__file__", "") or ""
            if not f.startswith(REPO + os.sep):
                del sys.modules[name]
    import bitproto  # noqa
    import bitprotolib  # noqa

    assert bitproto.__file__.startswith(COMPILER_DIR + os.sep), bitproto.__file__
    assert bitprotolib.__file__.startswith(PYLIB_DIR + os.sep), bitprotolib.__file__
    _pinned = True


def subprocess_env(extra: dict | None = None) -> dict:
    env = dict(os.environ)
    env["PYTHONPATH"] = COMPILER_DIR + os.pathsep + PYLIB_DIR
    env["PYTHONDONTWRITEBYTECODE"] = "1"
    env.setdefault("PYTHONHASHSEED", "0")
    if extra:
        env.update(extra)
    return env


_scratch_root: str | None = None


def scratch_root() -> str:
    """One private directory per process, removed at exit."""
    global _scratch_root
    if _scratch_root is None or not os.path.isdir(_scratch_root) or _scratch_owner != os.getpid():
        _make_root()
    return _scratch_root  # type: ignore


_scratch_owner = -1


def _make_root() -> None:
    global _scratch_root, _scratch_owner
    base = os.environ.get("BPVERIF_TMP") or os.environ.get("TMPDIR") or "/tmp"
    _scratch_root = tempfile.mkdtemp(prefix=f"bpverif-{os.getpid()}-", dir=base)
    _scratch_owner = os.getpid()
    root = _scratch_root

    def _cleanup(r=root, pid=os.getpid()) -> None:
        if os.getpid() == pid:
            shutil.rmtree(r, ignore_errors=True)

    atexit.register(_cleanup)


_counter = 0


def scratch_dir(prefix: str = "c") -> str:
    global _counter
    _counter += 1
    d = os.path.join(scratch_root(), f"{prefix}{_counter}")
    os.makedirs(d)
    return d


def rmtree(d: str) -> None:
    shutil.rmtree(d, ignore_errors=True)


def cleanup_now() -> None:
    global _scratch_root
    if _scratch_root and _scratch_owner == os.getpid():
        shutil.rmtree(_scratch_root, ignore_errors=True)
        _scratch_root = None
