"""Shape predicates of recorded findings, computed from the model and the
case's values only (never by running bitproto)."""

from __future__ import annotations

from typing import Any, Dict, List, Optional, Tuple

from . import ref
from .model import Enum, Message, TArray, resolve


def chunks(i: int, n: int) -> List[Tuple[int, int]]:
    """The documented chunking of an n-bit value starting at stream bit i:
    (j, c) with c = min(n-j, 8-j%8, 8-i%8)."""
    out = []
    j = 0
    while j < n:
        c = min(n - j, 8 - (j % 8), 8 - (i % 8))
        out.append((j, c))
        i += c
        j += c
    return out


def py_enum_decode_expectation(lf: ref.Leaf, v: int) -> Tuple[str, Optional[str]]:
    """(outcome, finding id) for decoding enum leaf lf holding member value v into a
    freshly constructed Python message.  D4b: the generated decoder ORs the wire
    bits into the field's default, which is the FIRST declared member."""
    d0 = lf.enum.members[0][1] if lf.enum.members else 0
    if (d0 | v) == v:
        return "ok", None
    return "wrong", "D4b"
