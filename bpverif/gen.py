"""Shared case plumbing: write a unit to disk, compile it, load Python."""

from __future__ import annotations

import os
from typing import Any, Dict, List, Optional, Tuple

from . import bpapi, env, pyexec, render_bp
from .model import File, Message, Unit, iter_messages
from .runner import Violation


class Compiled:
    """A unit rendered to a scratch directory and compiled for some languages."""

    def __init__(self, unit: Unit, style: Optional[render_bp.Style] = None, texts: Optional[Dict[str, str]] = None):
        self.unit = unit
        self.dir = env.scratch_dir("u")
        self.src = os.path.join(self.dir, "src")
        os.makedirs(self.src)
        self.texts = texts if texts is not None else render_bp.render_unit(unit, style)
        import zlib

        crc = zlib.crc32("".join(sorted(self.texts.values())).encode("utf-8", "replace"))
        # one unit in six (chosen by its text) has its schema files stored under OTHER names elsewhere and reached through symbolic
        # links of the expected names (vendored schemas): the name a schema is given on the command line / in an import is the
        # link's name, and that is the name output files and include lines are derived from
        self.symlinked = (crc // 4) % 6 == 0
        bpapi.write_files(self.src, self.texts, symlinked=self.symlinked)
        self.lint_first = crc % 4 != 0
        self.protos: Dict[str, Any] = {}
        self.outdirs: Dict[str, str] = {}
        self._pymods: Optional[pyexec.PyModules] = None
        self.pymod: Dict[str, Any] = {}

    def path(self, f: File) -> str:
        return os.path.join(self.src, f.filename)

    def parse(self, f: File, traditional: bool = False) -> Any:
        key = (f.base, traditional)
        if key not in self.protos:
            self.protos[key] = proto = bpapi.parse(self.path(f), traditional_mode=traditional)
            # the command line runs the linter between parsing and rendering unless -q is given: so do three of four
            # units here (chosen by their text, so a unit is always compiled the same way); what the linter says is
            # C20's business, but what it DOES to the schema it was shown reaches every generated file
            if self.lint_first:
                bpapi.lint(proto)
        return self.protos[key]

    def outdir(self, tag: str) -> str:
        if tag not in self.outdirs:
            d = os.path.join(self.dir, "out_" + tag)
            os.makedirs(d, exist_ok=True)
            self.outdirs[tag] = d
        return self.outdirs[tag]

    def render_all(self, lang: str, tag: Optional[str] = None, optimize: bool = False, **kw: Any) -> str:
        """Compile every file of the unit for lang (as a user must); returns outdir."""
        tag = tag or (lang + ("_O" if optimize else ""))
        out = self.outdir(tag)
        for f in self.unit.files:
            proto = self.parse(f, traditional=optimize)
            bpapi.render(proto, lang, out, optimize=optimize, **kw)
            # documented: output files are named after the schema FILE as it was named to the compiler (`x.bitproto` -> `x_bp.*`)
            for ext in {"c": [".c", ".h"], "go": [".go"], "py": [".py"]}[lang]:
                if not os.path.isfile(os.path.join(out, f.base + "_bp" + ext)):
                    from .runner import Violation

                    raise Violation(
                        f"compiling {f.filename} for {lang} did not write {f.base}_bp{ext}; the output directory holds {sorted(os.listdir(out))[:8]}"
                        + (" (the schema file is a symbolic link to a file of another name)" if self.symlinked else ""),
                        signature="output-file-name",
                    )
        return out

    def load_python(self) -> Dict[str, Any]:
        """Generate + import the Python modules of all files: base -> module."""
        if self.pymod:
            return self.pymod
        out = self.render_all("py")
        self._pymods = pyexec.PyModules(out)
        self._pymods.__enter__()
        for f in self.unit.files:
            self.pymod[f.base] = self._pymods.load(f.base + "_bp")
        return self.pymod

    def close(self) -> None:
        if self._pymods is not None:
            self._pymods.close()
            self._pymods = None
        self.pymod = {}
        env.rmtree(self.dir)

    def __enter__(self) -> "Compiled":
        return self

    def __exit__(self, *a: Any) -> None:
        self.close()


def describe_unit(unit: Unit, texts: Optional[Dict[str, str]] = None) -> Dict[str, Any]:
    return {"files": texts if texts is not None else render_bp.render_unit(unit)}


def hexs(b: Any) -> str:
    return bytes(b).hex()


def bit_diff(a: bytes, b: bytes) -> List[int]:
    out = []
    for k in range(max(len(a), len(b)) * 8):
        x = (a[k // 8] >> (k % 8)) & 1 if k // 8 < len(a) else None
        y = (b[k // 8] >> (k % 8)) & 1 if k // 8 < len(b) else None
        if x != y:
            out.append(k)
    return out
